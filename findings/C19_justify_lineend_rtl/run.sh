#!/bin/sh
# usage: run.sh <graphite2 source tree>   - exits 1 while the finding is present: gr_seg_justify on a right-to-left segment of a left-to-right
# font whose Silf flags announce line-end contextuals (Padauk with that one flag bit set: still a well-formed, accepted font) returns with
# the line's slots in a different order than before the call.
set -e
SRC=${1:-/repo}; HERE=$(cd "$(dirname "$0")" && pwd); W=$(mktemp -d); trap 'rm -rf "$W"' EXIT
SRCS=$(ls "$SRC"/src/*.cpp | grep -v -e call_machine.cpp -e json.cpp -e gr_logging.cpp)
g++ -std=c++11 -O1 -g -fsanitize=address,undefined -fno-sanitize=vptr -DGRAPHITE2_NTRACING -DGRAPHITE2_STATIC -I"$SRC/src" -I"$SRC/include" "$HERE/demo.cpp" $SRCS -o "$W/d"
ASAN_OPTIONS=detect_leaks=0 "$W/d" "$SRC/tests/fonts/Padauk.ttf" 1 1 "ابجد هوز حطي"
