#include <graphite2/Segment.h>
#include <graphite2/Font.h>
#include <cstdio>
#include <cstdlib>
#include <cstring>
#include <vector>
#include <string>
struct Mem { std::vector<unsigned char> d; };
static unsigned rd32(const unsigned char*p){return (p[0]<<24)|(p[1]<<16)|(p[2]<<8)|p[3];}
static unsigned rd16(const unsigned char*p){return (p[0]<<8)|p[1];}
static const void* gt(const void* h, unsigned tag, size_t* len){ Mem*m=(Mem*)h; unsigned n=rd16(&m->d[4]); for(unsigned i=0;i<n;i++){ const unsigned char*r=&m->d[12+16*i]; if(rd32(r)==tag){ *len=rd32(r+12); return &m->d[rd32(r+8)]; } } *len=0; return 0; }
int main(int argc,char**argv){
  const char* fn=argv[1]; int setflag=atoi(argv[2]); int dir=atoi(argv[3]);
  Mem m; FILE*f=fopen(fn,"rb"); fseek(f,0,SEEK_END); long L=ftell(f); fseek(f,0,SEEK_SET); m.d.resize(L); fread(&m.d[0],1,L,f); fclose(f);
  size_t sl; unsigned char* silf=(unsigned char*)gt(&m,0x53696c66,&sl);
  unsigned ver=rd32(silf); unsigned hdr= ver>=0x30000?8:4; unsigned nsub=rd16(silf+hdr); unsigned off=rd32(silf+hdr+4);
  unsigned char* st=silf+off; unsigned h0= ver>=0x30000?8:0;
  printf("%s silf ver %x nsub %u flags %02x dir %d\n", fn, ver, nsub, st[h0+11], 0);
  if(setflag&1) st[h0+11]|=1; { unsigned nj=st[h0+19]; unsigned q=h0+20+8*nj; printf("silf dir byte %u\n", st[q+4]); if(setflag&2) st[q+4]=2; }
  gr_face_ops ops={sizeof(gr_face_ops),gt,0};
  gr_face* face=gr_make_face_with_ops(&m,&ops,gr_face_default); if(!face){printf("no face\n");return 3;}
  const gr_faceinfo* fi=gr_face_info(face,0); printf("line_ends %d\n", fi->line_ends);
  gr_font* font=gr_make_font(20,face);
  const char* text = argv[4];
  size_t n=strlen(text);
  gr_segment* seg=gr_make_seg(font,face,0,0,gr_utf8,text,gr_count_unicode_characters(gr_utf8,text,text+n,0),dir);
  std::vector<const gr_slot*> before; for(const gr_slot*s=gr_seg_first_slot(seg);s;s=gr_slot_next_in_segment(s)) before.push_back(s);
  printf("slots %zu\n", before.size());
  float w=gr_seg_justify(seg, gr_seg_first_slot(seg), font, 500, gr_justCompleteLine, 0, 0);
  std::vector<const gr_slot*> after; int guard=0; for(const gr_slot*s=gr_seg_first_slot(seg);s&&guard<1000;s=gr_slot_next_in_segment(s),guard++) after.push_back(s);
  int bad = before!=after; const gr_slot*p=0; for(const gr_slot*s=gr_seg_first_slot(seg);s&&guard<2000;s=gr_slot_next_in_segment(s),guard++){ if(gr_slot_prev_in_segment(s)!=p) bad|=2; p=s;} if(p!=gr_seg_last_slot(seg)) bad|=4;
  printf("justify -> %f ; after slots %zu bad=%d\n", w, after.size(), bad);
  return bad?1:0;
}
