#!/bin/bash
# Emit LLVM IR for every /repo/src/*.cpp with the baseline preprocessor configuration.
# usage: emit_ir.sh <outdir> [extra clang flags...]
set -e
OUT=$1; shift
REPO=${REPO:-/repo}
mkdir -p "$OUT"
FLAGS="-std=c++11 -O1 -fno-vectorize -fno-slp-vectorize -fno-unroll-loops -ffp-contract=off -fno-builtin-memcmp -fno-rtti -fno-exceptions -fno-strict-aliasing -DGRAPHITE2_NTRACING -DNDEBUG -DGRAPHITE2_STATIC -DGRAPHITE2_NFILEFACE_OFF -I$REPO/src -I$REPO/include -Xclang -disable-llvm-passes-off"
FLAGS="-std=c++11 -O1 -fno-vectorize -fno-slp-vectorize -fno-unroll-loops -ffp-contract=off -fno-builtin-memcmp -fno-rtti -fno-exceptions -DGRAPHITE2_NTRACING -DNDEBUG -DGRAPHITE2_STATIC -I$REPO/src -I$REPO/include"
ls $REPO/src/*.cpp | xargs -P 16 -I{} sh -c 'b=$(basename {} .cpp); clang++-14 '"$FLAGS $*"' -S -emit-llvm {} -o '"$OUT"'/$b.ll'
