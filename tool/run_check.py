#!/usr/bin/env python3
"""Orchestration for the solver-based checks (DESIGN.md sections 1.2-1.6, 4, 5).

  run_check.py <property> --tier quick|thorough [--only REGEX] [--jobs N] [--keep]
  run_check.py --replay <dir>
  run_check.py --setup

Every run re-emits LLVM IR from /repo's working tree (cached by content hash of the sources and
of the tool chain), validates the translator against the gcc build of the real sources, and then
discharges the property's query list with cbmc.
"""
import argparse, concurrent.futures as cf, fcntl, threading, glob, hashlib, json, os, re, resource, shlex, shutil, subprocess, sys, time

VERIF = os.path.dirname(os.path.dirname(os.path.abspath(__file__)))
REPO = os.environ.get("VERIF_REPO", "/repo")
BUILD = os.path.join(VERIF, "build")
TOOL = os.path.join(VERIF, "tool")
HARN = os.path.join(VERIF, "harness")
sys.path.insert(0, TOOL)

LIBFLAGS = ["-std=c++11", "-O1", "-fno-vectorize", "-fno-slp-vectorize", "-fno-unroll-loops", "-ffp-contract=off",
            "-fno-builtin-memcmp", "-gline-tables-only", "-fno-rtti", "-fno-exceptions", "-DGRAPHITE2_NTRACING", "-DNDEBUG", "-DGRAPHITE2_STATIC",
            "-DGRAPHITE2_VERIF", f"-I{REPO}/src", f"-I{REPO}/include"]
NATIVEFLAGS = ["-std=c++11", "-O1", "-g", "-fno-rtti", "-fno-exceptions", "-DGRAPHITE2_NTRACING", "-DNDEBUG", "-DGRAPHITE2_STATIC",
               "-DGRAPHITE2_VERIF", f"-I{REPO}/src", f"-I{REPO}/include"]
LIB_EXCLUDE = {"direct_machine", "json"}     # call-threaded VM is the default library variant


def sh(cmd, cwd=None, timeout=None, env=None, check=True, capture=True):
    p = subprocess.run(cmd, cwd=cwd, timeout=timeout, env=env, stdout=subprocess.PIPE if capture else None,
                       stderr=subprocess.STDOUT if capture else None, text=True)
    if check and p.returncode != 0:
        raise RuntimeError("command failed (%d): %s\n%s" % (p.returncode, " ".join(map(shlex.quote, cmd)), (p.stdout or "")[-4000:]))
    return p


def file_hash(paths):
    h = hashlib.sha1()
    for p in sorted(paths):
        h.update(p.encode()); h.update(b"\0")
        with open(p, "rb") as f: h.update(f.read())
    return h.hexdigest()[:16]


def source_hash():
    files = glob.glob(f"{REPO}/src/*.cpp") + glob.glob(f"{REPO}/src/inc/*.h") + glob.glob(f"{REPO}/include/graphite2/*.h") + \
            glob.glob(f"{REPO}/gr2fonttest/*") + [f"{TOOL}/ll2c.cpp", f"{TOOL}/ll2c_prelude.h", f"{REPO}/tests/CMakeLists.txt"]
    files = [f for f in files if os.path.isfile(f)]
    return file_hash(files) + "-" + hashlib.sha1(" ".join(LIBFLAGS).encode()).hexdigest()[:6]


class Lock:
    def __init__(self, path): self.path = path
    def __enter__(self):
        os.makedirs(os.path.dirname(self.path), exist_ok=True)
        self.f = open(self.path, "w"); fcntl.flock(self.f, fcntl.LOCK_EX); return self
    def __exit__(self, *a): fcntl.flock(self.f, fcntl.LOCK_UN); self.f.close()


def build_ll2c():
    exe = os.path.join(BUILD, "ll2c")
    src = os.path.join(TOOL, "ll2c.cpp")
    stamp = exe + ".hash"
    h = file_hash([src])
    with Lock(os.path.join(BUILD, "ll2c.lock")):
        if os.path.exists(exe) and os.path.exists(stamp) and open(stamp).read() == h: return exe
        cxx = sh(["llvm-config-14", "--cxxflags"]).stdout.split()
        cxx = [f for f in cxx if not f.startswith("-std=")]
        ld = sh(["llvm-config-14", "--ldflags", "--libs", "core", "irreader", "support", "analysis"]).stdout.split()
        sh(["clang++-14", "-O1", "-std=c++17"] + cxx + [src, "-o", exe] + ld)
        open(stamp, "w").write(h)
    return exe


def lib_sources():
    return sorted(glob.glob(f"{REPO}/src/*.cpp"))


def emit_lib_ir(cache):
    """IR of every library unit (call VM library + direct_machine separately), linked."""
    ird = os.path.join(cache, "ir"); os.makedirs(ird, exist_ok=True)
    def one(src):
        b = os.path.splitext(os.path.basename(src))[0]
        sh(["clang++-14"] + LIBFLAGS + ["-S", "-emit-llvm", src, "-o", os.path.join(ird, b + ".ll")])
    with cf.ThreadPoolExecutor(16) as ex: list(ex.map(one, lib_sources()))
    units = [os.path.join(ird, os.path.splitext(os.path.basename(s))[0] + ".ll") for s in lib_sources()]
    call_units = [u for u in units if os.path.splitext(os.path.basename(u))[0] not in LIB_EXCLUDE]
    sh(["llvm-link-14", "-S", "-o", os.path.join(cache, "lib_call.ll")] + call_units)
    direct_units = [u for u in units if os.path.splitext(os.path.basename(u))[0] not in {"call_machine", "json"}]
    sh(["llvm-link-14", "-S", "-o", os.path.join(cache, "lib_direct.ll")] + direct_units)


def fonttest_cases():
    cases = []
    txt = open(f"{REPO}/tests/CMakeLists.txt").read()
    for m in re.finditer(r"^fonttest\((\w+)\s+(\S+)\s+([^)]*)\)", txt, re.M):
        args = shlex.split(m.group(3))
        cases.append((m.group(1), m.group(2), args))
    extra = "0628 0628 064E 0644 064E 0654 0627 064E 0020 06A9 06CC 06C1 0646 062F 06CC".split()
    for f in ("AwamiNastaliq-Regular.ttf", "Awami_compressed_test.ttf", "Awami_test.ttf"):
        if os.path.exists(f"{REPO}/tests/fonts/{f}"): cases.append(("x_" + f.split(".")[0], f, extra + ["-rtl"]))
    return cases


def validate_translator(cache, ll2c):
    """DESIGN 1.6-1: whole-library differential, IR->C->gcc build vs g++ build of the real sources."""
    d = os.path.join(cache, "diff"); os.makedirs(d, exist_ok=True)
    t0 = time.time()
    res = {"cases": 0, "identical": 0, "mismatch": []}
    results = {}
    for variant in ("call", "direct"):
        sh(["opt-14", "-S", "-passes=function(scalarizer)", os.path.join(cache, f"lib_{variant}.ll"), "-o", os.path.join(d, f"lib_{variant}.s.ll")])
        sh([ll2c, os.path.join(d, f"lib_{variant}.s.ll"), "-o", os.path.join(d, f"lib_{variant}.c"), "--prelude", f"{TOOL}/ll2c_prelude.h"])
        sh(["gcc", "-O1", "-w", "-c", os.path.join(d, f"lib_{variant}.c"), "-o", os.path.join(d, f"lib_{variant}.o")])
        sh(["g++", "-O1", "-w", "-std=c++11", "-DGRAPHITE2_NTRACING", "-DNDEBUG", "-DGRAPHITE2_STATIC", f"-I{REPO}/src", f"-I{REPO}/include",
            os.path.join(d, f"lib_{variant}.o"), f"{REPO}/gr2fonttest/gr2FontTest.cpp", f"{REPO}/gr2fonttest/UtfCodec.cpp", "-o", os.path.join(d, f"ft_ir_{variant}")])
    rd = os.path.join(d, "real"); os.makedirs(rd, exist_ok=True)
    srcs = [s for s in lib_sources() if os.path.splitext(os.path.basename(s))[0] not in LIB_EXCLUDE]
    def one(s):
        sh(["g++", "-O2", "-w", "-std=c++11", "-fno-rtti", "-fno-exceptions", "-DGRAPHITE2_NTRACING", "-DNDEBUG", "-DGRAPHITE2_STATIC",
            f"-I{REPO}/src", f"-I{REPO}/include", "-c", s, "-o", os.path.join(rd, os.path.basename(s) + ".o")])
    with cf.ThreadPoolExecutor(16) as ex: list(ex.map(one, srcs))
    lib = os.path.join(rd, "libreal.a")
    if os.path.exists(lib): os.remove(lib)
    sh(["ar", "rcs", lib] + [os.path.join(rd, os.path.basename(s) + ".o") for s in srcs])
    sh(["g++", "-O1", "-w", "-std=c++11", "-DGRAPHITE2_NTRACING", "-DNDEBUG", "-DGRAPHITE2_STATIC", f"-I{REPO}/src", f"-I{REPO}/include",
        f"{REPO}/gr2fonttest/gr2FontTest.cpp", f"{REPO}/gr2fonttest/UtfCodec.cpp", lib, "-o", os.path.join(d, "ft_real")])
    def run(case):
        name, font, args = case
        outs = []
        for exe in ("ft_real", "ft_ir_call", "ft_ir_direct"):
            log = os.path.join(d, f"{name}.{exe}.log")
            if os.path.exists(log): os.remove(log)
            p = subprocess.run([os.path.join(d, exe), "-log", log, f"{REPO}/tests/fonts/{font}", "-codes"] + args, stdout=subprocess.DEVNULL, stderr=subprocess.DEVNULL, timeout=120)
            outs.append((p.returncode, open(log, "rb").read() if os.path.exists(log) else b""))
        return name, outs
    with cf.ThreadPoolExecutor(16) as ex:
        for name, outs in ex.map(run, fonttest_cases()):
            res["cases"] += 1
            if outs[0] == outs[1] == outs[2] and len(outs[0][1]) > 0: res["identical"] += 1
            else: res["mismatch"].append(name)
    # C08/C09: mutable global variables of the library (ll2c lists every non-constant global definition of the linked module)
    mg = set()
    for variant in ("call", "direct"):
        m = re.search(r"/\* MUTABLE_GLOBALS:(.*?)\*/", open(os.path.join(d, f"lib_{variant}.c")).read())
        if m: mg |= set(m.group(1).split())
    res["mutable_globals"] = sorted(mg)
    res["seconds"] = round(time.time() - t0, 1)
    res["ok"] = not res["mismatch"] and res["cases"] > 0
    return res


def prepare(verbose=True):
    """Returns (cache dir, ll2c path, translator validation record)."""
    os.makedirs(BUILD, exist_ok=True)
    ll2c = build_ll2c()
    h = source_hash()
    cache = os.path.join(BUILD, "cache", h)
    with Lock(os.path.join(BUILD, "cache", h + ".lock")):
        marker = os.path.join(cache, "validation.json")
        if not os.path.exists(marker):
            if os.path.exists(cache): shutil.rmtree(cache)
            os.makedirs(cache)
            emit_lib_ir(cache)
            res = validate_translator(cache, ll2c)
            json.dump(res, open(marker, "w"))
            # drop old caches (disk)
            for other in glob.glob(os.path.join(BUILD, "cache", "*")):
                if os.path.isdir(other) and other != cache and time.time() - os.path.getmtime(other) > 3600: shutil.rmtree(other, ignore_errors=True)
        val = json.load(open(marker))
    return cache, ll2c, val


# ---------------------------------------------------------------------------------------- queries
class Query:
    def __init__(self, name, harness, entry, defines=None, unwind=8, unwindset=None, lib="call", ub=True, frozen=False, timeout=None,
                 cbmc_flags=None, expose=None, tiers=("quick", "thorough"), note="", solver=None, objbits=12, leak=False, known=None, inline=None, cc_defs=None, stubs=None, unit_flags=None, dyadic=None, memgb=None, est_gb=None):
        self.est_gb = est_gb            # expected peak RSS of one cbmc process (admission control; the hard limit is memgb)
        self.name, self.harness, self.entry = name, harness, entry
        self.defines = defines or {}
        self.unwind, self.unwindset = unwind, unwindset or {}
        self.lib, self.ub, self.frozen, self.timeout = lib, ub, frozen, timeout
        self.cbmc_flags = cbmc_flags or []
        self.expose = expose or []      # internal-linkage library symbols to make visible to the harness
        self.tiers, self.note, self.solver, self.objbits, self.leak = tiers, note, solver, objbits, leak
        self.known = known              # key into known_findings.txt
        self.inline = inline
        self.cc_defs = cc_defs or []
        self.unit_flags = unit_flags or {}     # {unit: [extra clang flags]}: that library unit is recompiled for this query (e.g. -fno-inline so that a function can be stubbed)
        self.memgb = memgb
        self.dyadic = dyadic            # K: exact-dyadic lowering of float (ll2c --dyadic K)
        self.stubs = stubs or []          # library functions (mangled names) whose definition is replaced by one the harness provides under the same name


def limit_mem(gb):
    def f():
        resource.setrlimit(resource.RLIMIT_AS, (gb << 30, gb << 30))
        os.setsid()
    return f


def build_query(q, cache, ll2c, qdir, witness):
    os.makedirs(qdir, exist_ok=True)
    tag = "w" if witness else "m"
    hll = os.path.join(qdir, f"h.{tag}.ll")
    defs = [f"-D{k}={v}" if v is not None else f"-D{k}" for k, v in q.defines.items()]
    if witness: defs += ["-DWITNESS", "-DVH_NOASSERT"]
    inl = ["-mllvm", f"-inline-threshold={q.inline}"] if q.inline else []
    sh(["clang++-14"] + LIBFLAGS + inl + ["-fno-access-control", f"-I{HARN}", "-S", "-emit-llvm", os.path.join(HARN, q.harness), "-o", hll] + defs)
    lib = os.path.join(cache, f"lib_{q.lib}.ll")
    if q.unit_flags:
        excl = {"call_machine", "json"} if q.lib == "direct" else LIB_EXCLUDE
        units = []
        for s in lib_sources():
            b = os.path.splitext(os.path.basename(s))[0]
            if b in excl: continue
            if b in q.unit_flags:
                u = os.path.join(qdir, f"{b}.{tag}.ll")
                sh(["clang++-14"] + LIBFLAGS + q.unit_flags[b] + ["-S", "-emit-llvm", s, "-o", u]); units.append(u)
            else: units.append(os.path.join(cache, "ir", b + ".ll"))
        lib = os.path.join(qdir, f"libu.{tag}.ll")
        sh(["llvm-link-14", "-S", "-o", lib] + units)
    if q.stubs:
        # the harness defines a function under the same (mangled) name; the library's definition is made weak and taken out of its
        # comdat so that llvm-link resolves every call to the harness definition
        txt = open(lib).read()
        for sym in q.stubs:
            pat = re.compile(r"^define (?:linkonce_odr |weak_odr |weak |internal |dso_local |hidden |noundef |zeroext |signext |nonnull )*", re.M)
            m = re.search(r"^define [^\n]*@" + re.escape(sym) + r"\([^\n]*$", txt, re.M)
            if not m: raise RuntimeError(f"stub: definition of {sym} not found")
            line = m.group(0)
            newline = re.sub(r"^define (linkonce_odr |weak_odr |weak |internal )?", "define weak ", line)
            newline = re.sub(r" comdat(\(\$[^)]*\))?", "", newline)
            txt = txt.replace(line, newline)
            # aliases of the stubbed symbol (C1 -> C2 constructors) would keep naming the library body: retarget their uses to the stubbed symbol
            for am in re.finditer(r"^@(\S+) = [^\n]*\balias\b[^\n]*@" + re.escape(sym) + r"\s*$", txt, re.M):
                txt = txt.replace(am.group(0) + "\n", "")
                txt = re.sub(r"@" + re.escape(am.group(1)) + r"\b", "@" + sym, txt)
        lib = os.path.join(qdir, f"libs.{tag}.ll"); open(lib, "w").write(txt)
    if q.expose:
        txt = open(lib).read()
        for sym in q.expose:
            n = 0
            pat = re.compile(r"^define internal (.*@" + re.escape(sym) + r"\()", re.M)
            txt, n = pat.subn(r"define dso_local \1", txt)
            if n != 1: raise RuntimeError(f"expose: symbol {sym} not found exactly once ({n})")
        lib = os.path.join(qdir, f"lib.{tag}.ll"); open(lib, "w").write(txt)
    mll = os.path.join(qdir, f"m.{tag}.ll")
    sh(["llvm-link-14", "-S", "-o", mll, hll, lib])
    oll = os.path.join(qdir, f"o.{tag}.ll")
    sh(["opt-14", "-S", "-passes=internalize,globaldce,function(scalarizer,loop-simplify)", f"-internalize-public-api-list={q.entry},ll_frozen_check", mll, "-o", oll])
    c = os.path.join(qdir, f"m.{tag}.c")
    flags = ["--prelude", f"{TOOL}/ll2c_prelude.h"]
    if q.ub and not witness: flags.append("--ub")
    if q.frozen and not witness: flags.append("--frozen")
    if q.dyadic is not None: flags += ["--dyadic", str(q.dyadic)]
    sh([ll2c, oll, "-o", c] + flags)
    # every LL_* macro the translator emitted must be defined by the prelude (an undefined one would silently become a bodyless function)
    used = set(re.findall(r"\b(LL_[A-Za-z0-9_]+)\s*\(", open(c).read()))
    defined = set(re.findall(r"#\s*define\s+(LL_[A-Za-z0-9_]+)", open(f"{TOOL}/ll2c_prelude.h").read()))
    if used - defined: raise RuntimeError("prelude does not define: " + " ".join(sorted(used - defined)))
    gb = os.path.join(qdir, f"m.{tag}.gb")
    sh(["goto-cc", "-D__CPROVER__", "-o", gb, c, "--function", q.entry] + ([f"-DLL_OBJBITS={q.objbits}"] if q.objbits else []) + [f"-D{d}" for d in q.cc_defs])
    return gb, c


def loop_bounds(q, gb, cfile):
    """Resolve q.unwindset against the loops of the goto binary.  Keys are regexes matched first against the SOURCE function
    the loop comes from (ll2c tags every backward goto with the inlined debug scope: 'sf=safe_copy'), then against cbmc's loop id."""
    if not q.unwindset: return [], []
    p = sh(["goto-instrument", "--show-loops", gb], check=False)
    loops = re.findall(r"^Loop (\S+):\n\s+file (\S+) line (\d+)", p.stdout, re.M)
    lines = open(cfile).read().split("\n")
    sets, info = [], []
    for lid, _, ln in loops:
        m = re.search(r"/\*LOOP sf=(\S+) file=(\S+) line=(\d+) depth=(\d+)\*/", lines[int(ln) - 1]) if 0 < int(ln) <= len(lines) else None
        sf = m.group(1) if m else ""
        info.append((lid, sf))
        hit = None
        for pat, b in q.unwindset.items():          # plain keys: full match on the source-function tag; 'lid:<regex>' keys: search in cbmc's loop id
            if pat.endswith(".recursion"): continue
            if pat.startswith("lid:"):
                if re.search(pat[4:], lid): hit = b; break
            elif sf and re.fullmatch(pat, sf): hit = b; break
        if hit is not None: sets.append(f"{lid}:{hit}")
    ctext = "\n".join(lines)
    for pat, b in q.unwindset.items():
        if pat.endswith(".recursion") and re.search(r"\b" + re.escape(pat[:-10]) + r"\(", ctext): sets.append(f"{pat[:-10]}:{b}")
    return sets, info


def run_cbmc(q, gb, cfile, qdir, witness, timeout, memgb):
    tag = "w" if witness else "m"
    cmd = ["cbmc", gb, "--function", q.entry, "--unwind", str(q.unwind), "--no-malloc-may-fail", "--drop-unused-functions", "--json-ui", "--verbosity", "6"]
    sets, loops = loop_bounds(q, gb, cfile)
    if witness: sets = [s for s in sets if not s.startswith("ll_frozen_check")]     # not referenced (dropped) in the uninstrumented twin
    if sets: cmd += ["--unwindset", ",".join(sets)]
    if witness:
        cmd += ["--no-standard-checks", "--stop-on-fail"]
    else:
        # C-level shift/overflow checks are off: the generated C only uses unsigned arithmetic, and the IR-level flags (LL_UB) carry the UB obligations
        cmd += ["--unwinding-assertions", "--trace", "--no-undefined-shift-check", "--no-signed-overflow-check"]
        if q.leak: cmd += ["--memory-leak-check"]
    if q.objbits: cmd += ["--object-bits", str(q.objbits)]
    if q.solver: cmd += q.solver
    cmd += q.cbmc_flags
    outp = os.path.join(qdir, f"cbmc.{tag}.json")
    open(os.path.join(qdir, f"cmd.{tag}.txt"), "w").write(" ".join(shlex.quote(c) for c in cmd) + "\n")
    t0 = time.time()
    status = "done"
    with open(outp, "w") as f:
        pr = subprocess.Popen(cmd, stdout=f, stderr=subprocess.STDOUT, preexec_fn=limit_mem(memgb))
        try: rc = pr.wait(timeout=timeout)
        except subprocess.TimeoutExpired:
            try: os.killpg(pr.pid, 9)
            except Exception: pr.kill()
            pr.wait(); status = "timeout"; rc = -9
    secs = time.time() - t0
    rec = {"cmd": " ".join(cmd), "seconds": round(secs, 2), "status": status, "rc": rc, "props": [], "failed": [], "loops": len(loops)}
    if status == "timeout": return rec
    try: data = json.load(open(outp))
    except Exception:
        rec["status"] = "error"; rec["tail"] = open(outp).read()[-2000:]; return rec
    result = None
    for el in data:
        if isinstance(el, dict) and "result" in el: result = el["result"]
        if isinstance(el, dict) and el.get("messageType") == "ERROR": rec.setdefault("errors", []).append(el.get("messageText", "")[:500])
        if isinstance(el, dict) and el.get("messageType") == "STATUS-MESSAGE":
            m = re.search(r"(\d+) variables, (\d+) clauses", el.get("messageText", ""))
            if m: rec["vars"], rec["clauses"] = int(m.group(1)), int(m.group(2))
            m = re.search(r"Generated (\d+) VCC\(s\), (\d+) remaining", el.get("messageText", ""))
            if m: rec["vccs"], rec["vccs_remaining"] = int(m.group(1)), int(m.group(2))
            m = re.search(r"Runtime Solver: ([\d.e+-]+)s", el.get("messageText", ""))
            if m: rec["solver_s"] = rec.get("solver_s", 0) + float(m.group(1))
    if result is None and witness:
        # --stop-on-fail prints a single trace instead of a result list
        txt = open(outp).read()
        if '"reason": "WITNESS"' in txt: rec["failed"].append({"property": "witness", "description": "WITNESS", "trace": None, "loc": {}})
        elif '"cProverStatus": "success"' not in txt: rec["status"] = "error"; rec["tail"] = txt[-1500:]
        return rec
    if result is None:
        rec["status"] = "error" if rc not in (0, 10) else "noresult"
        rec["tail"] = open(outp).read()[-1500:]
        if rc < 0 or "out of memory" in rec["tail"].lower() or "bad_alloc" in rec["tail"]: rec["status"] = "oom"
        return rec
    for p in result:
        rec["props"].append(p.get("property"))
        if p.get("status") == "FAILURE":
            rec["failed"].append({"property": p.get("property"), "description": p.get("description"), "trace": p.get("trace"),
                                  "loc": p.get("sourceLocation", {})})
    return rec


def classify(desc):
    d = desc or ""
    if "WITNESS" in d: return "witness"
    if d.startswith("DYADIC:"): return "unwind"          # an obligation of the float lowering failed: outside the grid, not a verdict
    if "unwinding assertion" in d or "recursion unwinding assertion" in d: return "unwind"
    if d.startswith("PROP:"): return "property"
    if d.startswith("UB:"): return "ub"
    return "memsafety"


def trace_values(trace, cfile):
    """nondet_* return values in call order, from the assignments cbmc's trace reports on 'vN = nondet_x();' lines."""
    lines = open(cfile).read().split("\n")
    vals = []
    for st in trace or []:
        if st.get("stepType") != "assignment": continue
        loc = st.get("sourceLocation") or {}
        try: ln = int(loc.get("line", "0"))
        except ValueError: continue
        if ln < 1 or ln > len(lines): continue
        m = re.match(r"\s*(v\d+) = nondet_(\w+)\(\);", lines[ln - 1])
        if not m: continue
        if st.get("lhs") != m.group(1): continue
        v = st.get("value", {})
        if "binary" in v: vals.append((m.group(2), int(v["binary"], 2)))
        elif "data" in v:
            try: vals.append((m.group(2), int(v["data"]) & 0xffffffffffffffff))
            except ValueError: vals.append((m.group(2), 0))
    return vals


def native_replay(q, rdir, vals, repo=REPO):
    """DESIGN 1.6-2: same harness source, compiled natively with ASan/UBSan against /repo/src directly."""
    os.makedirs(rdir, exist_ok=True)
    with open(os.path.join(rdir, "values.txt"), "w") as f:
        f.write(f"# nondet return values in call order for {q.harness}:{q.entry} {q.defines}\n")
        for k, v in vals: f.write(f"{v:#x}\n")
    meta = {"harness": q.harness, "entry": q.entry, "defines": q.defines, "lib": q.lib, "name": q.name, "leak": q.leak, "stubs": q.stubs, "unit_flags": q.unit_flags, "dyadic": q.dyadic, "expose": q.expose}
    json.dump(meta, open(os.path.join(rdir, "meta.json"), "w"), indent=1)
    return run_replay(rdir)


def run_replay(rdir):
    meta = json.load(open(os.path.join(rdir, "meta.json")))
    defs = [f"-D{k}={v}" if v is not None else f"-D{k}" for k, v in meta["defines"].items()]
    excl = {"json", "call_machine"} if meta.get("lib") == "direct" else LIB_EXCLUDE
    objdir = os.path.join(BUILD, "native", source_hash() + "-" + meta.get("lib", "call"))
    san = ["-fsanitize=address,undefined", "-fno-sanitize-recover=undefined", "-fno-omit-frame-pointer"]
    with Lock(objdir + ".lock"):
        if not os.path.exists(os.path.join(objdir, "done")):
            os.makedirs(objdir, exist_ok=True)
            srcs = [s for s in lib_sources() if os.path.splitext(os.path.basename(s))[0] not in excl]
            def one(s): sh(["clang++-14"] + NATIVEFLAGS + san + ["-c", s, "-o", os.path.join(objdir, os.path.basename(s) + ".o")])
            with cf.ThreadPoolExecutor(16) as ex: list(ex.map(one, srcs))
            open(os.path.join(objdir, "done"), "w").write("ok")
    exe = os.path.join(rdir, "replay.exe")
    objs = glob.glob(os.path.join(objdir, "*.o"))
    extra = []
    for unit, fl in (meta.get("unit_flags") or {}).items():      # units recompiled for the query (e.g. -fno-inline so that a stub takes effect)
        o = os.path.join(rdir, unit + ".o")
        sh(["clang++-14"] + NATIVEFLAGS + san + fl + ["-c", f"{REPO}/src/{unit}.cpp", "-o", o])
        objs = [x for x in objs if os.path.basename(x) != unit + ".cpp.o"] + [o]
    for sym in (meta.get("expose") or []):       # internal-linkage functions the harness calls: make the local symbol global in a copy of its object
        for x in list(objs):
            if re.search(r" t " + re.escape(sym) + r"$", subprocess.run(["nm", x], capture_output=True, text=True).stdout, re.M):
                o = os.path.join(rdir, "exposed_" + os.path.basename(x))
                sh(["objcopy", "--globalize-symbol=" + sym, x, o]); objs = [y for y in objs if y != x] + [o]
    if meta.get("stubs"): extra = ["-Wl,--allow-multiple-definition"]          # the harness' definition (first on the command line) replaces the library's
    sh(["clang++-14"] + NATIVEFLAGS + san + ["-fno-access-control", "-DVH_NATIVE", f"-DVH_ENTRY_NAME={meta['entry']}", f"-I{HARN}",
        os.path.join(HARN, meta["harness"]), os.path.join(HARN, "replay_rt.cpp")] + defs + objs + extra + ["-o", exe])
    env = dict(os.environ, VH_VALUES=os.path.join(rdir, "values.txt"), VH_DYADIC=str(meta.get("dyadic") if meta.get("dyadic") is not None else -1), ASAN_OPTIONS=("detect_leaks=1" if meta.get("leak") else "detect_leaks=0") + ":abort_on_error=0:exitcode=43", UBSAN_OPTIONS="print_stacktrace=1:halt_on_error=1:exitcode=44")
    try:
        p = subprocess.run([exe], env=env, stdout=subprocess.PIPE, stderr=subprocess.STDOUT, text=True, timeout=60)
        outp, rc = p.stdout, p.returncode
    except subprocess.TimeoutExpired as e:
        outp, rc = (e.stdout or "") + "\nREPLAY: timeout (60 s): loop budget exceeded", 45
    open(os.path.join(rdir, "replay.log"), "w").write(outp)
    with open(os.path.join(rdir, "run.sh"), "w") as f:
        f.write("#!/bin/sh\n# re-run this counterexample natively (ASan+UBSan build of /repo/src)\nexec python3 %s --replay %s\n" % (os.path.join(TOOL, "run_check.py"), rdir))
    os.chmod(os.path.join(rdir, "run.sh"), 0o755)
    try: os.remove(exe)
    except OSError: pass
    reproduced = rc != 0
    return reproduced, rc, outp[-3000:]


def load_known():
    known, fixed = {}, []
    p = os.path.join(VERIF, "known_findings.txt")
    if os.path.exists(p):
        for line in open(p):
            line = line.strip()
            if line.startswith("known:"):
                m = re.search(r"property=(\S+)\s+key=(\S+)\s+(.*)", line)
                if m: known[(m.group(1), m.group(2))] = m.group(3)
            elif line.startswith("fixed:"): fixed.append(line)
    return known, fixed


class MemBudget:
    """admission control: the sum of the expected peaks of the running cbmc processes stays below 80% of RAM (the kernel OOM killer
    otherwise turns verdicts into 'error'); a query killed anyway is re-run once with the whole budget to itself"""
    def __init__(self):
        tot = 32
        try: tot = int(re.search(r"MemTotal:\s+(\d+)", open("/proc/meminfo").read()).group(1)) >> 20
        except Exception: pass
        self.total = max(4, int(tot * 0.8)); self.used = 0; self.cv = threading.Condition()
    def acquire(self, gb):
        gb = min(gb, self.total)
        with self.cv:
            while self.used + gb > self.total: self.cv.wait()
            self.used += gb
        return gb
    def release(self, gb):
        with self.cv: self.used -= gb; self.cv.notify_all()
BUDGET = MemBudget()


def run_pair(q, gb, cfile, gbw, cfilew, qdir, timeout, memgb):
    est = q.est_gb or (q.memgb or 2)
    for attempt in (0, 1):
        got = BUDGET.acquire(2 * est if attempt == 0 else BUDGET.total)
        try:
            with cf.ThreadPoolExecutor(2) as ex:
                fm = ex.submit(run_cbmc, q, gb, cfile, qdir, False, timeout, q.memgb or memgb)
                fw = ex.submit(run_cbmc, q, gbw, cfilew, qdir, True, timeout, q.memgb or memgb)
                main, wit = fm.result(), fw.result()
        finally: BUDGET.release(got)
        if not any(r["status"] != "timeout" and r.get("rc") == -9 for r in (main, wit)): break
    return main, wit


def run_query(q, cache, ll2c, pid, tier, keep, timeout, memgb):
    qdir = os.path.join(BUILD, "q", pid, q.name)
    if os.path.exists(qdir): shutil.rmtree(qdir)
    rec = {"name": q.name, "harness": q.harness, "entry": q.entry, "defines": q.defines, "unwind": q.unwind, "unwindset": q.unwindset,
           "lib": q.lib, "note": q.note}
    t0 = time.time()
    try:
        gb, cfile = build_query(q, cache, ll2c, qdir, False)
        gbw, cfilew = build_query(q, cache, ll2c, qdir, True)
    except Exception as e:
        rec.update(verdict="build-error", error=str(e)[-3000:]); return rec
    rec["c_lines"] = sum(1 for _ in open(cfile))
    fns = re.findall(r"^[A-Za-z_][\w \*]*?\b(\w+)\([^;{]*\) \{$", open(cfile).read(), re.M)
    rec["functions_encoded"] = sorted(set(fns))
    main, wit = run_pair(q, gb, cfile, gbw, cfilew, qdir, timeout, memgb)
    rec["seconds"] = round(time.time() - t0, 2)
    rec["cbmc_s"] = main["seconds"]; rec["witness_s"] = wit["seconds"]
    for k in ("vars", "clauses", "vccs", "vccs_remaining", "solver_s", "cmd"):
        if k in main: rec[k] = main[k]
    rec["n_properties"] = len(main["props"])
    rec["witness_reachable"] = any(classify(f["description"]) == "witness" for f in wit.get("failed", []))
    if main["status"] != "done":
        rec.update(verdict="inconclusive", reason=main["status"], tail=main.get("tail", ""));
    elif main.get("errors") and not main["props"]:
        rec.update(verdict="build-error", error="; ".join(main["errors"]))
    elif not main["failed"]:
        if wit["status"] != "done": rec.update(verdict="inconclusive", reason="witness " + wit["status"], tail=wit.get("tail", ""))
        elif not rec["witness_reachable"]: rec.update(verdict="vacuous")
        else: rec.update(verdict="holds")
    else:
        fails = [{"property": f["property"], "description": f["description"], "kind": classify(f["description"]),
                  "line": f["loc"].get("line"), "function": f["loc"].get("function")} for f in main["failed"]]
        rec["failed"] = fails
        rec["verdict"] = "fails"
        # replay the first failing property that has a trace (prefer a harness property, then memsafety)
        order = {"property": 0, "memsafety": 1, "ub": 2, "unwind": 3}
        cands = sorted([f for f in main["failed"] if f.get("trace")], key=lambda f: order.get(classify(f["description"]), 9))
        if cands:
            vals = trace_values(cands[0]["trace"], cfile)
            rdir = os.path.join(VERIF, "replays", pid, q.name)
            if os.path.exists(rdir): shutil.rmtree(rdir)
            try:
                rep, rc, tail = native_replay(q, rdir, vals)
                rec["replay"] = {"dir": rdir, "reproduced": rep, "rc": rc, "tail": tail[-1500:], "for": cands[0]["description"], "nvalues": len(vals)}
            except Exception as e:
                rec["replay"] = {"dir": rdir, "reproduced": False, "error": str(e)[-1500:]}
    if rec.get("verdict") == "fails" and not rec.get("replay", {}).get("reproduced"):
        kinds = set(f["kind"] for f in rec["failed"])
        if kinds <= {"ub"}:
            # IR-flag UB (nsw/nuw/shift range) is poison, not immediate UB: clang may speculate such an instruction on a path where
            # its result is unused.  Only UBSan-confirmed ones count; the rest are listed as unconfirmable.
            rec["ub_unconfirmed"] = sorted(set(f["description"] + " @" + str(f.get("function")) for f in rec["failed"]))
            rec["verdict"] = "holds" if rec.get("witness_reachable") else "vacuous"
        elif kinds <= {"unwind", "ub"}:
            rec["verdict"] = "inconclusive"; rec["reason"] = "unwinding bound too small for this code (native replay terminates normally)"
    if not keep:
        for f in glob.glob(os.path.join(qdir, "*.ll")) + glob.glob(os.path.join(qdir, "*.gb")) + glob.glob(os.path.join(qdir, "cbmc.*.json")):
            if rec.get("verdict") in ("holds",): os.remove(f)
    return rec


def main():
    ap = argparse.ArgumentParser()
    ap.add_argument("pid", nargs="?")
    ap.add_argument("--tier", default=os.environ.get("VERIF_TIER", "quick"))
    ap.add_argument("--only")
    ap.add_argument("--jobs", type=int, default=0)
    ap.add_argument("--keep", action="store_true")
    ap.add_argument("--replay")
    ap.add_argument("--setup", action="store_true")
    ap.add_argument("--no-evidence", action="store_true")
    a = ap.parse_args()
    if a.replay:
        rep, rc, tail = run_replay(a.replay.rstrip("/"))
        print(tail); print("REPLAY reproduced=%s rc=%d" % (rep, rc)); sys.exit(1 if rep else 0)
    t0 = time.time()
    cache, ll2c, val = prepare()
    if a.setup:
        print("translator validation:", json.dumps(val)); sys.exit(0 if val.get("ok") else 2)
    if not val.get("ok"):
        print("MACHINERY-ERROR translator validation failed:", val); sys.exit(2)
    import queries
    qs = [q for q in queries.QUERIES[a.pid]() if a.tier in q.tiers]
    if a.only: qs = [q for q in qs if re.search(a.only, q.name)]
    seed = int(os.environ.get("VERIF_SEED", "0"))
    if seed:
        import random; random.Random(seed).shuffle(qs)
    tcap = {"quick": 240, "thorough": 1800}.get(a.tier, 1800)
    memgb = 14
    known, fixed = load_known()
    jobs = a.jobs or 7       # each query runs main+witness cbmc concurrently
    recs = []
    with cf.ThreadPoolExecutor(jobs) as ex:
        futs = [ex.submit(run_query, q, cache, ll2c, a.pid, a.tier, a.keep, q.timeout or tcap, memgb) for q in qs]
        for f in cf.as_completed(futs):
            r = f.result(); recs.append(r)
            print("[%s] %-40s %-12s %6.1fs %s" % (a.pid, r["name"], r.get("verdict"), r.get("seconds", 0), (r.get("reason", "") + ((" | " + " ".join(r.get("tail", "")[-300:].split())) if "error" in (r.get("reason") or "") else "")) or (r.get("error", "")[:300] if r.get("verdict") == "build-error" else "")), flush=True)
    recs.sort(key=lambda r: r["name"])
    violations, knownhits, machinery = [], [], []
    qmap = {q.name: q for q in qs}
    for r in recs:
        v = r.get("verdict")
        if v in ("build-error", "vacuous"): machinery.append(r)
        if v == "fails":
            q = qmap[r["name"]]
            key = (a.pid, q.known) if q.known else None
            if key and key in known: knownhits.append((r, known[key]))
            else: violations.append(r)
    if a.pid in ("C08", "C09") and val.get("mutable_globals"):
        rd = os.path.join(VERIF, "replays", a.pid, "mutable_globals"); os.makedirs(rd, exist_ok=True)
        open(os.path.join(rd, "globals.txt"), "w").write("\n".join(val["mutable_globals"]) + "\n")
        print("VIOLATION property=%s replay=%s the library defines mutable global state: %s" % (a.pid, rd, " ".join(val["mutable_globals"])[:300]))
        violations.append({"name": "mutable_globals", "failed": [], "verdict": "fails"})
    for r, what in knownhits: print(f"KNOWN-FINDING: property={a.pid} {what}")
    for r in violations:
        rp = r.get("replay", {})
        print("VIOLATION property=%s replay=%s query=%s confirmed_by_native_replay=%s failed=%s" % (
            a.pid, rp.get("dir", "-"), r["name"], rp.get("reproduced"), "; ".join(sorted(set((f["description"] + (" [" + str(f.get("property")) + "]" if f["kind"] == "unwind" else "")) for f in r["failed"]))[:4])))
    for r in machinery: print("MACHINERY-ERROR query=%s verdict=%s %s" % (r["name"], r["verdict"], r.get("error", "")[:500]))
    if not a.no_evidence: write_evidence(a.pid, a.tier, seed, recs, val, violations, knownhits, time.time() - t0, qs)
    sys.exit(1 if violations else (2 if machinery else 0))


def write_evidence(pid, tier, seed, recs, val, violations, knownhits, wall, qs):
    import queries
    holds = [r for r in recs if r.get("verdict") == "holds"]
    fns = sorted(set(f for r in recs for f in r.get("functions_encoded", []) if not f.startswith("vh_") and "vh_" not in f))
    samples = []
    for r in recs[:12]:
        samples.append({k: r.get(k) for k in ("name", "harness", "entry", "defines", "unwind", "unwindset", "lib", "verdict", "n_properties", "vccs",
                                               "vars", "clauses", "cbmc_s", "witness_s", "witness_reachable", "note") if r.get(k) is not None})
    meta = queries.META.get(pid, {})
    ev = {
        "property_id": pid, "tier": tier, "seed": seed, "level": "model_checking",
        "coverage": {
            "evaluations": len(recs),
            "distinct_nontrivial": len([r for r in holds if r.get("witness_reachable")]),
            "rule": "one evaluation = one cbmc query (one harness entry at one concrete size tuple) over ALL symbolic contents inside the stated bounds, "
                    "encoded from the IR clang emits for /repo's current sources; non-trivial = verdict 'holds' AND its -DWITNESS twin's assert(0) was reached "
                    "(assumptions satisfiable, end of harness reachable); distinct = distinct (entry, parameter tuple)",
            "samples": samples,
            "queries": [{k: r.get(k) for k in ("name", "verdict", "reason", "seconds", "cbmc_s", "n_properties", "vccs", "clauses", "witness_reachable", "failed", "replay", "cmd") if r.get(k) is not None} for r in recs],
            "functions_encoded": fns,
            "bounds": meta.get("bounds", ""),
            "outside_claim": meta.get("outside", ""),
            "stubs": meta.get("stubs", ["malloc/calloc/realloc/free: cbmc model, allocation never fails (--no-malloc-may-fail)", "qsort: insertion sort calling the real comparator", "abort: assume(false)"]),
            "inconclusive": [r["name"] for r in recs if r.get("verdict") == "inconclusive"],
            "solver_time_s": round(sum(r.get("cbmc_s", 0) + r.get("witness_s", 0) for r in recs), 1),
            "translator_validation": val,
            "known_findings_hit": [w for _, w in knownhits],
            "exhaustive": False,
        },
        "assumptions": meta.get("assumptions", []) + [
            "trusted base: clang-14 front end and -O1 pipeline, ll2c (validated on this run by the whole-library differential above), cbmc 6.11 and its SAT back end",
            "allocation failure is out of scope (malloc never returns NULL)",
        ],
        "wall_s": round(wall, 1),
        "violations": len(violations),
    }
    os.makedirs(os.path.join(VERIF, "evidence"), exist_ok=True)
    json.dump(ev, open(os.path.join(VERIF, "evidence", f"{pid}.json"), "w"), indent=1)


if __name__ == "__main__":
    main()
