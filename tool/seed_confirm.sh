#!/bin/bash
# seed_confirm.sh <name> <worktree> <mutdir>: confirm a seeded change independently (tests still pass; demo fails with, passes without)
name=$1; wt=$2; md=$3
cd $wt || exit 9
git diff > /tmp/confirm_$name.cur.diff
if ! diff -q <(git diff) $md/patch.diff >/dev/null; then echo "[$name] WARNING: worktree diff != patch.diff; resetting to patch.diff"; git checkout -- . ; git apply $md/patch.diff || { echo "[$name] patch does not apply"; exit 8; }; fi
(cmake -G Ninja -B _build -DCMAKE_BUILD_TYPE=RelWithDebInfo -DGRAPHITE2_NTRACING=ON >/dev/null && cmake --build _build 2>&1 | tail -1) > /tmp/confirm_$name.build.log 2>&1
t=$(ctest --test-dir _build -j8 --timeout 900 2>&1 | grep "tests passed")
echo "[$name] tests with patch: $t"
bash $md/demo/run.sh $wt > /tmp/confirm_$name.with.log 2>&1; rcw=$?
git apply -R $md/patch.diff
bash $md/demo/run.sh $wt > /tmp/confirm_$name.without.log 2>&1; rcwo=$?
git apply $md/patch.diff
echo "[$name] demo rc with patch=$rcw (want !=0), without=$rcwo (want 0)"
