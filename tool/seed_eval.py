#!/usr/bin/env python3
"""seed_eval.py <seed-id> [--tier quick|thorough] [--props C03,C04]: apply a seeded change to /repo, run the checks, undo, record the outcome in meta.json."""
import json, os, subprocess, sys, time
V = os.path.dirname(os.path.dirname(os.path.abspath(__file__)))
sid = sys.argv[1]; tier = "quick"; props = None; only = None
a = sys.argv[2:]
while a:
    if a[0] == "--tier": tier = a[1]; a = a[2:]
    elif a[0] == "--props": props = a[1].split(","); a = a[2:]
    elif a[0] == "--only": only = a[1]; a = a[2:]
    else: a = a[1:]
d = os.path.join(V, "seeded", sid)
meta_p = os.path.join(d, "meta.json")
meta = json.load(open(meta_p)) if os.path.exists(meta_p) else {}
props = props or [meta.get("property", sid.split("_")[0])]
assert subprocess.run(["git", "-C", "/repo", "status", "--porcelain", "--untracked-files=no"], capture_output=True, text=True).stdout.strip() == "", "/repo has local changes"
subprocess.run(["git", "-C", "/repo", "apply", os.path.join(d, "patch.diff")], check=True)
res = {}
try:
    for p in props:
        t0 = time.time()
        cmd = ["python3", os.path.join(V, "tool", "run_check.py"), p, "--tier", tier, "--no-evidence"] + (["--only", only] if only else [])
        r = subprocess.run(cmd, capture_output=True, text=True, timeout=7200)
        viol = [l for l in r.stdout.split("\n") if l.startswith("VIOLATION")]
        res[p] = {"tier": tier, "exit": r.returncode, "violations": len(viol), "first": [v[:400] for v in viol[:3]], "seconds": round(time.time() - t0, 1),
                  "other": [l[:300] for l in r.stdout.split("\n") if "MACHINERY" in l or "inconclusive" in l][:5]}
        print(sid, p, tier, "exit", r.returncode, "violations", len(viol)); [print("   ", v[:300]) for v in viol[:2]]
finally:
    subprocess.run(["git", "-C", "/repo", "checkout", "--", "."], check=True)
meta.setdefault("runs", []).append({"when": time.strftime("%Y-%m-%d %H:%M"), "results": res})
meta["detected"] = any(x["exit"] == 1 for run in meta["runs"] for x in run["results"].values())
json.dump(meta, open(meta_p, "w"), indent=1)
