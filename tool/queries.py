"""Query lists per property: each Query is one cbmc run (one harness entry at one concrete size tuple)."""
from run_check import Query as Q

META = {}
QUERIES = {}

def prop(pid):
    def deco(f): QUERIES[pid] = f; return f
    return deco

# ------------------------------------------------------------------------------------------- C20
META["C20"] = {
    "bounds": "gr_str_to_tag: every C string of length 0..8 (all non-NUL byte values) in an exact-size heap buffer; gr_tag_to_str: all 2^32 tags into an exact 4-byte buffer",
    "outside": "strings longer than 8 bytes",
    "assumptions": ["strlen is cbmc's built-in model"],
}
@prop("C20")
def c20():
    qs = []
    for n in range(0, 9):
        qs.append(Q(f"str_to_tag_len{n}", "C20_tags.cpp", "vh_str_to_tag", {"LEN": n}, unwind=12, tiers=("quick", "thorough") if n <= 6 else ("thorough",)))
    qs.append(Q("tag_to_str", "C20_tags.cpp", "vh_tag_to_str", unwind=6))
    qs.append(Q("roundtrip", "C20_tags.cpp", "vh_roundtrip", unwind=8))
    return qs
