"""Query lists per property: each Query is one cbmc run (one harness entry at one concrete size tuple)."""
from run_check import Query as Q

META = {}
QUERIES = {}

def prop(pid):
    def deco(f): QUERIES[pid] = f; return f
    return deco

# ------------------------------------------------------------------------------------------- C20
META["C20"] = {
    "bounds": "gr_str_to_tag: every C string of length 0..8 (all non-NUL byte values) in an exact-size heap buffer; gr_tag_to_str: all 2^32 tags into an exact 4-byte buffer",
    "outside": "strings longer than 8 bytes",
    "assumptions": ["strlen is cbmc's built-in model"],
}
@prop("C20")
def c20():
    qs = []
    for n in range(0, 9):
        qs.append(Q(f"str_to_tag_len{n}", "C20_tags.cpp", "vh_str_to_tag", {"LEN": n}, unwind=12, tiers=("quick", "thorough") if n <= 6 else ("thorough",)))
    qs.append(Q("tag_to_str", "C20_tags.cpp", "vh_tag_to_str", unwind=6))
    qs.append(Q("tag_select", "C20_tags.cpp", "vh_tag_select", {"VH_TAGSEL": None}, unwind=8, unwindset={"findFeatureRef": 3, "cloneFeatures": 3, "insert": 4, "vh_tag_select": 12},
                cc_defs=["LL_MEM_CASES=0,4,8,16,24,32,40,48,56,176"]))
    qs.append(Q("roundtrip", "C20_tags.cpp", "vh_roundtrip", unwind=8))
    return qs

# ------------------------------------------------------------------------------------------- C11
META["C11"] = {
    "bounds": "gr_count_unicode_characters on exact-size heap buffers: UTF-8 0..6 bytes (thorough 0..8), UTF-16 0..4 units (thorough 5), UTF-32 0..3 units, with buffer_end and NUL-terminated with buffer_end==NULL; single codec step on exact 4-byte / 2-unit / 1-unit buffers; put/get on all scalar values",
    "outside": "longer buffers (codec is memoryless: state is (cp, sl)); encoded surrogate code points in UTF-8/UTF-32 are left unclassified (neither acceptance nor rejection is demanded); segment-level encoding equivalence is decided in C05",
    "assumptions": ["reference decoders from Unicode Table 3-7 (harness/utfref.h)", "surrogate code points encoded in UTF-8/UTF-32 excluded by assumption"],
}
@prop("C11")
def c11():
    qs = []
    for enc, qmax, tmax in ((8, 6, 8), (16, 4, 5), (32, 3, 3)):
        for n in range(0, tmax + 1):
            tiers = ("quick", "thorough") if n <= qmax else ("thorough",)
            qs.append(Q(f"count_end_u{enc}_len{n}", "C11_utf.cpp", "vh_count_end", {"ENC": enc, "LEN": n}, unwind=n + 6, tiers=tiers))
            qs.append(Q(f"count_nul_u{enc}_len{n}", "C11_utf.cpp", "vh_count_nul", {"ENC": enc, "LEN": n}, unwind=n + 6, tiers=tiers))
        qs.append(Q(f"get_step_u{enc}", "C11_utf.cpp", "vh_get_step", {"ENC": enc}, unwind=8))
        qs.append(Q(f"put_get_u{enc}", "C11_utf.cpp", "vh_put_get", {"ENC": enc}, unwind=8))
    return qs

# ------------------------------------------------------------------------------------------- C14
META["C14"] = {
    "bounds": "lz4::decompress on exact-size buffers: in_size 13..16 x out_size in_size+1..24 (quick subset), up to 20 x 32 (thorough); all input bytes symbolic; plus shaped blocks lz4_shape_l<L0>_m<ML>_l<L1>: two sequences with concrete tokens (L0 = 0..14 literals, one match of ML = 4..18 bytes at any distance, L1 in {5,6,8} final literals; quick: L0 in {1,9,12}, L1 in {5,6}), offsets and data bytes arbitrary (in up to 26, out up to 40)",
    "outside": "blocks > 20 bytes / outputs > 32 bytes; blocks shorter than the decoder's documented 13-byte minimum; segment-level equality of compressed vs uncompressed fonts (content equality of the decompressed table is what is decided)",
    "assumptions": ["byte-wise reference LZ4 block decoder in harness/C14_lz4.cpp"],
}
@prop("C14")
def c14():
    qs = []
    quick = {(13, 14), (13, 16), (13, 17), (14, 15), (14, 16), (15, 16)}
    for i in range(13, 21):
        for o in range(i + 1, 33):
            if (i, o) in quick: tiers = ("quick", "thorough")
            elif i <= 16 and ((o - i) % 3 == 1 or o in (24, 25)) and o <= 25 and (i <= 15 or o <= 20): tiers = ("thorough",)
            else: continue
            us = {"read_literal": i + 1, "safe_copy": o + 1, "overrun_copy": o // 8 + 2, "fast_copy": o // 8 + 2, "decompress": i // 3 + 2,
                  "ref_ext": i + 1, "ref_copy_lit": i + 1, "ref_copy_match": o + 1, "ref_lz4": i // 3 + 2, "vh_bytes": i + 1, "vh_lz4": o + 1}
            qs.append(Q(f"lz4_in{i}_out{o}", "C14_lz4.cpp", "vh_lz4", {"IN": i, "OUT": o}, unwind=o + 3, unwindset=us, tiers=tiers))
    # shaped blocks: L0 literals, a match of ML bytes (any distance), then a final run of L1 literals; tokens concrete, everything else arbitrary
    for l0 in range(0, 15):
        for ml in range(4, 19):
            for l1 in (5, 6, 8):
                i, o = 1 + l0 + 2 + 1 + l1, l0 + ml + l1
                quick = l0 in (1, 9, 12) and l1 in (5, 6)
                us = {"read_literal": i + 1, "safe_copy": o + 1, "overrun_copy": o // 8 + 2, "fast_copy": o // 8 + 2, "decompress": 5,
                      "ref_ext": i + 1, "ref_copy_lit": i + 1, "ref_copy_match": o + 1, "ref_lz4": 5, "vh_bytes": i + 1, "vh_lz4": o + 1}
                qs.append(Q(f"lz4_shape_l{l0}_m{ml}_l{l1}", "C14_lz4.cpp", "vh_lz4", {"IN": i, "OUT": o, "TOK0": (l0 << 4) | (ml - 4), "TOK1": l1 << 4}, unwind=o + 3, unwindset=us,
                            tiers=("quick", "thorough") if quick else ("thorough",)))
    qs += [x for x in QUERIES["C16"]() if x.name.startswith("table_Silf_lz4")]     # the wrapper: an accepted compressed table holds exactly what the block decodes to
    return qs

# ------------------------------------------------------------------------------------------- C07
META["C07"] = {
    "bounds": "(a) each opcode body 0x00-0x18, 0x30-0x32, 0x3E-0x41, both code types, ALL 32-bit operand values and parameter bytes, any stack depth arity..1023; (c) all 67 opcode_table rows",
    "outside": "DIV quotient VALUE outside the signed 16-bit operand range (two 32-bit dividers / a 64-bit multiplier: no verdict within 240 s on minisat, cadical, kissat, z3, cvc5 with and without bv-as-int; its fail-safe clause, operand order of the guards and stack movement ARE decided for all operands); whole-text shaping equality of the two interpreter builds (only the driver-equivalence lemma is decided); programs longer than the stated instruction bound",
    "assumptions": ["entry invariant: operands present on the stack (loader depth analysis, decided in C01/C02) and 0 <= sp-sb < STACK_MAX",
                    "opcodes 0x3E/0x3F follow the engine's numbering (BITOR, BITAND); doc/OpCodes.adoc lists them swapped (DESIGN 7)"],
}
ARITH_OPS = list(range(0x00, 0x19)) + [0x30, 0x31, 0x32, 0x3E, 0x3F, 0x40, 0x41]
@prop("C07")
def c07():
    qs = []
    for op in ARITH_OPS:
        for impl in (0, 1):
            for d in (0, 1, 2):
                defs = {"OPC": op, "IMPL": impl, "DEPTHSEL": d}
                if op == 0x09: defs["DIVMODE"] = 0      # fail-safe clause + sp/dp movement on ALL operands; quotient value: see META outside
                qs.append(Q(f"op{op:02x}_impl{impl}_d{d}", "C07_opcodes.cpp", "vh_opcode", defs, unwind=6,
                            cbmc_flags=["--max-field-sensitivity-array-size", "2048"] + (["--sat-solver", "cadical"] if op == 0x08 else [])))
    qs.append(Q("op09_quotient_16bit", "C07_opcodes.cpp", "vh_opcode", {"OPC": 9, "IMPL": 0, "DEPTHSEL": 1, "DIVMODE": 2}, unwind=6,
                cbmc_flags=["--max-field-sensitivity-array-size", "2048", "--sat-solver", "cadical"], note="DIV quotient value for operands in the signed 16-bit range"))
    qs.append(Q("optable", "C07_opcodes.cpp", "vh_optable", unwind=4))
    for lib in ("call", "direct"):
        for depth in (1, 2, 5, 1023, 1024):
            big = depth > 100
            qs.append(Q(f"driver_{lib}_depth{depth}", "driver.cpp", "vh_driver_depth", {"DEPTH": depth, "NS": 1}, unwind=8, lib=lib,
                        unwindset={"vh_driver_depth": 2 * depth + 4, "vh_bytes": depth + 2, "run": 2 * depth + 6, "direct_run": 2 * depth + 6, "lid:run": 2 * depth + 6},
                        cbmc_flags=["--max-field-sensitivity-array-size", "2100"], timeout=900 if big else None, tiers=("quick", "thorough")))
    return qs

# ------------------------------------------------------------------------------------------- C03
META["C03"] = {
    "bounds": "one primitive from an arbitrary INV_stream state: NS live slots (quick 1..4, thorough ..6) laid out in an array, 1 spare slot on the free list, symbolic flags/bidi classes/associations, symbolic VM window (start,len,context) over the stream; glyph cache of 2 glyphs x 4 attributes",
    "outside": "streams longer than the bound inside a single primitive; composition of primitives is covered inductively through INV_stream; Pass-level rule loop: see C02",
    "assumptions": ["slot addresses are only compared for equality by the code under test (array order = stream order)",
                    "pre-state satisfies INV_stream (and INV_forest / INV_assoc where named in the harness)"],
}
def forests(n):
    """all parent vectors over n nodes that are acyclic (labelled rooted forests)"""
    import itertools
    out = []
    for pv in itertools.product(range(-1, n), repeat=n):
        ok = True
        for i in range(n):
            seen, p = set(), i
            while p != -1 and p not in seen: seen.add(p); p = pv[p]
            if p != -1: ok = False; break
        if ok: out.append(pv)
    return out
FORESTED = {"vh_attach", "vh_link_clusters", "vh_delete_gc", "vh_put_copy", "vh_temp_copy", "vh_finalise", "vh_scale", "vh_depth"}
WINDOWED = {"vh_delete_putcopy", "vh_slot_attr"} | {"vh_delete_insert", "vh_next_end", "vh_delete_gc", "vh_insert", "vh_put_copy", "vh_temp_copy", "vh_next", "vh_assoc_op", "vh_attach", "vh_attr_set"}
def slot_queries(pid, entries, quickmax, thoroughmax, extra=None, nmin=1, extra_unwind=None, src="slots.cpp", with_forest=False):
    qs = []
    for e in entries:
        for n in range(nmin, thoroughmax + 1):
            tiers = ("quick", "thorough") if n <= quickmax else ("thorough",)
            lib = {"reverseSlots": n + 2, "collectGarbage": n + 3, "freeSlot": n + 2, "associateChars": n + 2, "appendSlot": n + 2, "linkClusters": n + 2,
                   "sibling": n + 2, "child": n + 2, "removeChild": n + 2, "setAttr": n + 3, "finalise": n + 2, "positionSlots": n + 2, "floodShift": n + 2,
                   "_ZN9graphite24Slot7siblingEPS0_.recursion": n + 2}
            if extra_unwind: lib.update(extra_unwind)
            wins = [(0, n, c) for c in range(n)] if e in WINDOWED else [None]
            if e in WINDOWED and n >= 3: wins += [(1, n - 1, 0), (1, 1, 0), (0, n - 1, n - 2)]   # windows that do not cover the whole stream
            fors = forests(n) if (e in FORESTED and with_forest) else [None]
            if len(fors) > 20:       # n >= 4: chains, stars and a spread of the rest
                keep = [f for f in fors if all(p == -1 for p in f) or all(f[i] == i - 1 for i in range(1, n)) or all(f[i] == 0 for i in range(1, n))]
                fors = keep + fors[3::11]
            for wdw in wins:
              for fv in fors:
                d = {"NS": n}
                if extra: d.update(extra)
                name = f"{e[3:]}_n{n}"
                if wdw: d.update({"WSTART": wdw[0], "WLEN": wdw[1], "WCTX": wdw[2]}); name += f"_w{wdw[0]}{wdw[1]}{wdw[2]}"
                if fv is not None: d["FORESTV"] = ",".join(str(p) for p in fv); name += "_f" + "".join("x" if p < 0 else str(p) for p in fv)
                if e == "vh_attach":
                    for tv in list(range(0, (wdw[1] if wdw else n) + 1)) + [-1]:
                        d2 = dict(d); d2["ATTVAL"] = tv
                        # quick: all of n <= 2, plus at n = 3 the chain and star forests over the full window (re-attachment to a descendant / sibling)
                        t2 = ("quick", "thorough") if (n <= 2 or (n == 3 and wdw[:2] == (0, 3) and fv in ((-1, 0, 1), (-1, 0, 0)))
                                                    or (n == 4 and wdw == (0, 4, 2) and fv == (-1, 0, 0, 0) and tv in (1, 3))) else ("thorough",)   # middle child of three leaves its parent
                        qs.append(Q(name + f"_t{tv if tv >= 0 else 'o'}", src, e, d2, unwind=n + 5, unwindset=lib, tiers=t2, ub=True))
                    continue
                tq = ("quick", "thorough") if (e == "vh_delete_gc" and with_forest and n == 4 and wdw == (0, 4, 2) and fv == (-1, 0, 0, 0)) else tiers
                qs.append(Q(name, src, e, d, unwind=n + 5, unwindset=lib, tiers=tq, ub=True))
    return qs
@prop("C03")
def c03():
    return slot_queries("C03", ["vh_delete_insert"], 3, 4, extra={"NSPARE": 2}) + slot_queries("C03", ["vh_delete_putcopy"], 3, 4, nmin=2) + slot_queries("C03", ["vh_reverse", "vh_delete_gc", "vh_insert", "vh_put_copy", "vh_temp_copy", "vh_next", "vh_append", "vh_associate"], 3, 5) + \
           [Q("setglyph", "slots.cpp", "vh_setglyph", {"NS": 1}, unwind=8), Q("slot_index", "slots.cpp", "vh_slot_index", {"NS": 1}, unwind=8)] + \
           [x for x in QUERIES["C12"]() if "_extra" in x.name and ("len0" in x.name or "len1" in x.name)]      # gr_seg_n_slots == slots actually appended when the text ends early

# ------------------------------------------------------------------------------------------- C12
META["C12"] = {
    "bounds": "Segment::read_text (the only consumer of the text in gr_make_seg) on NUL-terminated exact-size heap buffers: 0..3 code units before the NUL (thorough 4) x 3 encodings x nChars = true count + 0..2; all contents; arbitrary cmap",
    "outside": "longer texts (the loop body is memoryless apart from the iterator state decided in C11); gr_make_seg's later stages (runGraphite/finalise) do not touch the text",
    "assumptions": ["cmap lookups return arbitrary glyph ids (virtual stub)", "encoded surrogates excluded as in C11"],
}
def text_queries(extras, lens_quick, lens_thorough):
    qs = []
    for enc in (8, 16, 32):
        for n in range(0, lens_thorough + 1):
            for x in extras:
                tiers = ("quick", "thorough") if n <= lens_quick else ("thorough",)
                qs.append(Q(f"read_text_u{enc}_len{n}_extra{x}", "text.cpp", "vh_read_text", {"ENC": enc, "LEN": n, "EXTRA": x}, unwind=n + x + 6, tiers=tiers))
    return qs
@prop("C12")
def c12():
    return text_queries((0, 1, 2), 2, 3)

# ------------------------------------------------------------------------------------------- C04
META["C04"] = {
    "bounds": "one primitive from an arbitrary INV_stream + INV_forest state over NS slots (quick 1..3, thorough ..4): symbolic parent vector (acyclic by symbolic rank), children listed in index order; setAttr(attach.to) with any 16-bit value and subindex; DELETE+collectGarbage+freeSlot, PUT_COPY, TEMP_COPY+collectGarbage (shared with C03); linkClusters both directions",
    "outside": "sibling orders other than index order in the pre-state; more than NS slots",
    "assumptions": ["pre-state satisfies INV_forest: acyclic parents, x.parent == p iff x occurs exactly once in p's child/sibling chain"],
}
@prop("C04")
def c04():
    return slot_queries("C04", ["vh_link_clusters"], 3, 4, with_forest=True) + \
           slot_queries("C04", ["vh_attach", "vh_delete_gc", "vh_put_copy", "vh_temp_copy"], 2, 4, with_forest=True)
# ------------------------------------------------------------------------------------------- C05
META["C05"] = {
    "bounds": "(a) read_text on exact-size buffers, 0..2 code units (thorough 3) x 3 encodings, nChars = unit count; (b) INSERT / ASSOC / PUT_COPY / TEMP_COPY keep slot before/after/original inside [0,n) from arbitrary INV_assoc states of NS slots (1..3, thorough ..4); (c) associateChars from arbitrary INV_stream+INV_assoc states with NS slots and NS chars (1..3, thorough ..5): every char covered, char-info before/after are slot indices",
    "outside": "char counts different from slot counts in (c) beyond NC=NS; Slot::set/update (unused by the API path)",
    "assumptions": ["reference decode from Unicode Table 3-7; ill-formed sequences consume the lead unit plus following continuation units (the resynchronisation lemma decided in C11)"],
}
@prop("C05")
def c05():
    return text_queries((0,), 2, 3) + slot_queries("C05", ["vh_associate", "vh_insert", "vh_assoc_op", "vh_put_copy", "vh_temp_copy", "vh_append"], 3, 4) + \
           [Q(f"face_run_n{n}", "facerun.cpp", "vh_face_run", {"NS": n}, unwind=n + 5, unwindset={"associateChars": n + 2, "vh_face_run": n + 3},
              stubs=["_ZNK9graphite24Silf11runGraphiteEPNS_7SegmentEhhi"], unit_flags={"Silf": ["-fno-inline"], "Face": ["-fno-inline"]}) for n in (1, 2, 3)]

# ------------------------------------------------------------------------------------------- C18
META["C18"] = {
    "bounds": "(1) FeatureRef constructor: any running bit offset below 256 words, any two 32-bit max values; (2) set/get/clone laws on a two-feature map allocated by the real constructor, all max values readFeats can produce, all 16-bit values, arbitrary feature words",
    "outside": "maps with more than two features (disjointness is pairwise over successive allocations: lemma 1); Sill language overrides and labels: decided under the loader harnesses when built",
    "assumptions": ["readFeats rejects tables whose running bit offset reaches 256 words (fix recorded in known_findings.txt)"],
}
@prop("C18")
def c18():
    sl = []
    for nl in (1, 2, 3):
        sl.append(Q(f"clonefeatures_l{nl}", "sill.cpp", "vh_clonefeatures", {"NL": nl, "LEN": 12}, unwind=nl + 3, unwindset={"vh_clonefeatures": nl + 3, "cloneFeatures": nl + 3, "lid:ll_malloc_split": 8, "lid:ll_calloc_split": 8, "lid:ll_realloc_split": 8, "lid:ll_memmove_sym": 8},
                    cc_defs=["LL_MEM_CASES=0,4,8,16,32"]))
    for nl, L in ((0, 12), (1, 12), (1, 19), (1, 20), (1, 28), (2, 28), (2, 36)):
        sl.append(Q(f"readsill_l{nl}_len{L}", "sill.cpp", "vh_readsill", {"NL": nl, "LEN": L}, unwind=8, unwindset={"vh_get_table": L + 2, "vh_bytes": L + 2, "readSill": 6, "findFeatureRef": 3, "lid:ll_malloc_split": 10, "lid:ll_calloc_split": 10, "lid:ll_realloc_split": 10},
                    cc_defs=["LL_MEM_CASES=0,4,8,32," + ",".join(str(k) for k in sorted({L, 8 + 16 * nl, 16 * nl, 24} - {32}))], timeout=600 if nl <= 1 else 1700,
                    tiers=("quick", "thorough") if nl <= 1 else ("thorough",)))
    fs = sl + [Q(f"feat_settings_n{n}", "feat.cpp", "vh_feat_settings", {"NSET": n, "NF": 1, "VH_FEATSET": None}, unwind=n + 3, unwindset={"vh_bytes": 4 * n + 2},
            expose=["_ZN12_GLOBAL__N_119readFeatureSettingsEPKhPN9graphite214FeatureSettingEm"], unit_flags={"FeatureMap": ["-fno-inline"]}) for n in (1, 2, 3)]
    return fs + feat_queries() + [Q("fref_alloc_lo", "C18_features.cpp", "vh_fref_alloc", {"BITS_LO": 0, "BITS_HI": 4096}, unwind=34),
            Q("fref_alloc_hi", "C18_features.cpp", "vh_fref_alloc", {"BITS_LO": 4096, "BITS_HI": 8192}, unwind=34),
            ] + [Q(f"fmap_laws_m{a:x}_{b:x}", "C18_features.cpp", "vh_fmap_laws", {"MAX1": f"{a}u", "MAX2": f"{b}u"}, unwind=34, unwindset={"reserve": 4, "insert": 6, "_insert_default": 6}, tiers=("thorough",), timeout=1700)
                 for a, b in ((1, 1), (1, 3), (3, 1), (0xffff, 1), (0xffff, 0xffff), (0xffffffff, 1), (1, 0xffffffff), (0x7fff, 0x1ffff & 0xffff), (0xffffffff, 0xffffffff), (255, 0xffff))] + [
            Q("fmap_laws", "C18_features.cpp", "vh_fmap_laws", unwind=34, unwindset={"reserve": 4, "insert": 6, "_insert_default": 6}, tiers=("thorough",), timeout=1700)]

# ------------------------------------------------------------------------------------------- C17
META["C17"] = {
    "bounds": "(a) Zones::remove / insert / closest / initialise from an arbitrary well-formed interval set of K = 0..1 intervals (bit-precise IEEE-754, |v| <= 2^20) and, thorough tier under the exact-dyadic lowering, remove K<=3 / insert K<=3 (grid 1/4, |v| <= 4096, 28 GB); (b) ShiftCollider::initSlot limit clause per axis under the exact-dyadic lowering (grid 1/16, inputs multiples of 1/2, |v| <= 32, margin 0; diagonal axes with zero accumulated offset)",
    "outside": "(c) resolved => separated (mergeSlot); KernCollider; larger interval sets; diagonal axes with non-zero accumulated offset; resolve's cost arithmetic (inexact by nature)",
    "assumptions": ["pre-state satisfies INV_zones: x < xm, inside [_pos,_posm], sorted, disjoint"],
}
@prop("C17")
def c17():
    qs = []
    for k in range(0, 5):
        for e in ("vh_remove", "vh_insert", "vh_closest"):
            quickmax = {"vh_remove": 0, "vh_insert": 0, "vh_closest": 1}[e]
            if k > {"vh_remove": 1, "vh_insert": 0, "vh_closest": 1}[e]: continue       # larger K: no verdict within the caps (DESIGN 3.17 status)
            tiers = ("quick", "thorough") if k <= quickmax else ("thorough",)
            qs.append(Q(f"{e[3:]}_k{k}", "C17_zones.cpp", e, {"K": k}, unwind=k + 6,
                        unwindset={"find_exclusion_under": 5, "remove": k + 3, "insert": k + 3, "closest": k + 3, "lid:VectorINS_5Zones9Exclusion": k + 3, "erase": k + 3, "_insert_default": k + 3}, tiers=tiers, cc_defs=["LL_REALLOC_UNREACHABLE"]))
    qs.append(Q("initialise", "C17_zones.cpp", "vh_initialise", {"K": 1}, unwind=8))
    for ax in range(4):
        qs.append(Q(f"initslot_limit_axis{ax}", "collider.cpp", "vh_initslot", {"AXIS": ax, "ZERO_OFFSET": None} if ax >= 2 else {"AXIS": ax}, unwind=8, unwindset={"initSlot": 6, "vh_initslot": 6},
                    dyadic=4, cc_defs=["LL_REALLOC_UNREACHABLE"]))
    qs.append(Q("initslot_resolve", "collider.cpp", "vh_initslot", {"AXIS": 0, "VH_RESOLVE": None}, unwind=8, unwindset={"initSlot": 6, "vh_initslot": 6, "resolve": 6, "closest": 4, "find_exclusion_under": 5},
                cc_defs=["LL_REALLOC_UNREACHABLE"], cbmc_flags=["--sat-solver", "cadical"], timeout=1700, tiers=("experimental",)))     # bit-precise IEEE; not registered in any tier until it gives a verdict (the dyadic lowering cannot express resolve's FLT_MAX sentinels)
    for ax in range(4):
        for hb in ((0,) if ax < 2 else (3, 5)):      # diagonal axes: 3-bit inputs in the quick tier, 5-bit in the thorough tier (520 s and more)
            d = {"WINAXIS": ax}
            if hb: d["HBITS"] = hb
            qs.append(Q(f"resolve_axis{ax}" + (f"_b{hb}" if hb else ""), "resolve.cpp", "vh_resolve_axis", d, unwind=8, unwindset={"resolve": 6, "vh_resolve_axis": 6},
                        stubs=["_ZNK9graphite25Zones7closestEfRf"], unit_flags={"Collider": ["-fno-inline"], "Intervals": ["-fno-inline"]}, cc_defs=["LL_REALLOC_UNREACHABLE"],
                        timeout=600 if hb != 5 else 1700, tiers=("thorough",) if hb == 5 else ("quick", "thorough"), cbmc_flags=["--sat-solver", "cadical"]))
    for cost in (0, 1):
        qs.append(Q("mergeslot_subbox_equiv" + ("_cost" if cost else ""), "mergeslot.cpp", "vh_mergeslot_sub", {"CMP_COST": None} if cost else {}, unwind=8, unwindset={"mergeSlot": 6, "vh_mergeslot_sub": 14},
                    stubs=["_ZN9graphite25Zones20exclude_with_marginsEffi", "_ZN9graphite25Zones12weightedAxisEiffffffffb"], unit_flags={"Collider": ["-fno-inline"], "Intervals": ["-fno-inline"]},
                    timeout=900 if not cost else 1700, cc_defs=["LL_REALLOC_UNREACHABLE"], dyadic=4, cbmc_flags=["--sat-solver", "cadical"], tiers=("thorough",) if cost else ("quick", "thorough")))
    # the same remove/insert lemmas under the exact-dyadic lowering (only compares, min/max and additions are involved: every obligation holds)
    for k in range(1, 4):
        for e in ("vh_remove", "vh_insert"):
            qs.append(Q(f"{e[3:]}_k{k}_dyadic", "C17_zones.cpp", e, {"K": k, "FB": "4096.0f"}, unwind=k + 6,
                        unwindset={"find_exclusion_under": 5, "remove": k + 3, "insert": k + 3, "lid:VectorINS_5Zones9Exclusion": k + 3, "erase": k + 3, "_insert_default": k + 3},
                        tiers=("thorough",), timeout=1700, cc_defs=["LL_REALLOC_UNREACHABLE"], dyadic=2, memgb=28))
            if k == 1 and e == "vh_remove":      # ~115 s: the one-interval remove lemma belongs to the quick tier (a removal below/above the bounds needs an interval to damage)
                qs[-1].tiers = ("quick", "thorough"); qs[-1].timeout = 600; qs[-1].est_gb = 8
    return qs

# ------------------------------------------------------------------------------------------- C13
META["C13"] = {
    "bounds": "Silf::findPseudo (pseudo-glyph fallback) == first-match reference on every pseudo map of 0..5 entries, all code points; CmapSubtable4Lookup on every CheckCmapSubtable4-accepted, well-formed (sorted, disjoint, start<=end, even idRangeOffset) format-4 subtable with 1..3 segments and 0..2 glyphIdArray entries, all contents, all BMP code points; CmapSubtable12Lookup on well-formed format-12 subtables with 1..3 groups, all 32-bit code points",
    "outside": "more segments/groups (binary-search depth 2 explored); subtable selection order (the cached path is decided under C10)",
    "assumptions": ["well-formedness as stated (the property's 'well-formed font')"],
}
@prop("C13")
def c13():
    qs = []
    for n in (1, 2, 3):
        for g in (0, 1, 2):
            tiers = ("quick", "thorough") if (n <= 2 and g <= 1) else ("thorough",)
            qs.append(Q(f"cmap4_ref_seg{n}_gid{g}", "cmap.cpp", "vh_cmap4_ref", {"NSEG": n, "NGID": g}, unwind=n + 4, unwindset={"vh_bytes": 64}, tiers=tiers))
        qs.append(Q(f"cmap12_ref_grp{n}", "cmap.cpp", "vh_cmap12_ref", {"NGRP": n}, unwind=n + 3, unwindset={"vh_bytes": 64}, tiers=("quick", "thorough") if n <= 2 else ("thorough",)))
    for nrec, tl in ((1, 20), (1, 28), (2, 28), (2, 36)):
        qs.append(Q(f"findsubtable_r{nrec}_len{tl}", "cmap.cpp", "vh_findsubtable", {"NREC": nrec, "TLEN": tl, "NSEG": 1, "NGID": 0, "NGRP": 1}, unwind=nrec + 3, unwindset={"vh_bytes": tl + 2, "FindCmapSubtable": nrec + 2, "vh_findsubtable": nrec + 2}))
    for n in (0, 1, 2, 3, 5):
        qs.append(Q(f"pseudo_n{n}", "silfload.cpp", "vh_pseudo", {"NPS": n}, unwind=n + 3))
    return qs
def c01_cmap():
    qs = []
    for L in (4, 12, 20, 28, 36, 44):
        tiers = ("quick", "thorough") if L <= 36 else ("thorough",)
        qs.append(Q(f"cmap4_safe_len{L}", "cmap.cpp", "vh_cmap4_safe", {"LEN": L}, unwind=8, unwindset={"vh_bytes": L + 1}, tiers=tiers))
        qs.append(Q(f"cmap12_safe_len{L}", "cmap.cpp", "vh_cmap12_safe", {"LEN": L}, unwind=8, unwindset={"vh_bytes": L + 1}, tiers=tiers))
    return qs

# ------------------------------------------------------------------------------------------- C01
META["C01"] = {
    "bounds": "per parser, arbitrary table bytes in an exact-size heap buffer of the listed concrete lengths (see query names); memory safety = cbmc pointer/bounds/free checks + IR-flag UB; totality = unwinding assertions",
    "outside": "tables longer than the bounds; parsers without a harness yet (listed in DESIGN 3.1 status); gr_make_face end-to-end; allocation failure",
    "assumptions": [],
}
def c01_name():
    qs = []
    # getName never returns record 0 (index 0 doubles as "not found"), so its allocations are reachable only with two records (>= 30 bytes)
    for L, so, tiers in ((6, None, None), (18, None, None), (19, None, None), (20, None, None), (26, None, None), (32, 30, None), (34, 30, None),
                         (32, None, ("thorough",)), (38, 30, ("thorough",))):
        span = (L - so) if so is not None else L          # bytes of string storage a record may claim (x2: slack for bound checks that are off by a factor)
        ml = span if L >= 30 else 0
        cases = sorted({0, L} | {(l + 1) * 2 for l in range(ml + 1)} | {(l + 1) * 4 for l in range(ml + 1)} | {3 * l + 1 for l in range(ml + 1)}) if L >= 30 else [0, L]
        d = {"LEN": L}
        if so is not None: d["STROFF_MIN"] = so
        qs.append(Q(f"name_len{L}" + ("" if so is None or tiers else "") + ("_anyoffset" if (so is None and L >= 30) else ""), "nametable.cpp", "vh_name", d, unwind=8,
                    unwindset={"vh_bytes": L + 1, "Locale2Lang": 260, "getMsId": 5, "strncmp": 6, "strchr": 5, "strlen": 5, "NameTable": 8, "getName": ml + 4, "setPlatformEncoding": 8, "getLanguageId": 8, "validate": ml + 4, "vh_stub_locale2lang": 28,
                               "lid:ll_malloc_split": len(cases) + 2, "lid:ll_calloc_split": len(cases) + 2, "lid:ll_realloc_split": len(cases) + 2, "lid:ll_memmove_sym": len(cases) + 2},
                    tiers=tiers or ("quick", "thorough"), timeout=1700 if tiers else None, stubs=["_ZN9graphite211Locale2LangC2Ev"], cc_defs=["LL_MEM_CASES=" + ",".join(map(str, cases))]))
    return qs
DECODER_CTOR = "_ZN9graphite22vm7Machine4Code7decoderC2ERNS3_6limitsERS2_NS_8passtypeE"
def decoder_query(name, entry, L, rl, extra=None, tiers=("thorough",), timeout=1700):
    d = {"LEN": L, "RLEN": rl}
    if extra: d.update(extra)
    return Q(name, "decoder.cpp", entry, d, unwind=L + 4,
             unwindset={"is_impl": 70, "Code": 60, "vh_decode": L + 4, "vh_arith_prog": L + 4, "ref_run": L + 3, "load": L + 2, "apply_analysis": L + 3, "fetch_opcode": L + 2,
                        "_ZN9graphite22vm7Machine4Code7decoder4loadEPKhS5_.recursion": 2,
                        "_ZN9graphite22vm7Machine4Code7decoder11emit_opcodeENS0_6opcodeERPKh.recursion": 2,
                        "lid:ll_memmove_sym": 2 * L + 12, "lid:ll_realloc_split": 2 * L + 12, "lid:ll_malloc_split": 2 * L + 12, "lid:ll_calloc_split": 2 * L + 12},
             tiers=tiers, timeout=timeout, cc_defs=["LL_MEM_CASES=" + ",".join(str(k) for k in sorted(set(list(range(0, L + 3)) + [8 * i for i in range(1, L + rl + 5)] + [40, 48, 56, (L + 1 + rl) * 8 + L, (L + 1) * 8 + L])))],
             unit_flags={"Code": ["-fno-inline"]}, stubs=[DECODER_CTOR])
def c01_decoder():
    qs = []
    for L in (1, 2, 3, 4):
        for rl in (1, 2):
            if L >= 4 and rl == 2: continue
            for con in (0, 1):
                qs.append(decoder_query(f"decode_len{L}_rl{rl}_c{con}", "vh_decode", L, rl, {"NS": 0, "CONSTRAINT": con}))
    return qs
def feat_queries():
    qs = []
    for ver in (1, 2):
        for nf, ns in ((0, 0), (1, 0), (1, 1), (1, 2), (2, 1)):
            for slack in (0, 4, -1):
                rec = 16 if ver >= 2 else 12
                L = 12 + nf * rec + ns * 4 + slack
                if L < 12 or (slack < 0 and nf == 0): continue
                tiers = ("thorough",)       # 130 s (no settings) .. > 240 s (with settings): thorough tier only
                if nf == 2 and not (slack == 0 and ver == 2): continue
                qs.append(Q(f"readfeats_v{ver}_f{nf}_s{ns}_len{L}", "feat.cpp", "vh_readfeats", {"VER": ver, "NF": nf, "NSET": ns, "LEN": L}, unwind=8,
                            unwindset={"vh_bytes": L + 1, "ll_qsort": 4, "readFeats": 4, "readFeatureSettings": 4, "vh_readfeats": 6, "insert": 5, "reserve": 3,
                                       "lid:ll_malloc_split": 34, "lid:ll_calloc_split": 34, "lid:ll_realloc_split": 34, "lid:ll_memmove_sym": 34},
                            tiers=tiers, timeout=1700, cc_defs=["LL_MEM_CASES=" + ",".join(str(k) for k in list(range(0, 50, 2)) + [56, 64, 72, 88, 96, 128])]))
    return qs
def c01_pass():
    qs = []
    for nfg, nr in ((1, 1), (3, 1), (3, 2), (4, 3)):
        qs.append(Q(f"readranges_g{nfg}_r{nr}", "passload.cpp", "vh_readranges", {"NFG": nfg, "NR": nr}, unwind=nfg + 3, unwindset={"vh_bytes": 6 * nr + 2, "readRanges": max(nfg, nr) + 2,
                    "lid:ll_malloc_split": 4, "lid:ll_calloc_split": 4}, cc_defs=[f"LL_MEM_CASES=0,{2 * nfg}"], tiers=("quick", "thorough") if nfg <= 3 else ("thorough",)))
    for (ns, nt, nsu, nc, nru, ml, npre) in ((1, 0, 1, 1, 1, 1, 1), (2, 1, 1, 2, 1, 2, 1), (3, 2, 2, 2, 2, 3, 2), (3, 2, 2, 2, 2, 3, 1)):
        sizes = sorted({0, 2 * npre, 16 * ns, 2 * nt * nc})
        qs.append(Q(f"readstates_s{ns}t{nt}u{nsu}c{nc}r{nru}m{ml}p{npre}", "passload.cpp", "vh_readstates",
                    {"NSTATES": ns, "NTRANS": nt, "NSUCC": nsu, "NCOLS": nc, "NRULES": nru, "MAPLEN": ml, "NPRE": npre}, unwind=8,
                    unwindset={"vh_bytes": 2 * max(npre, nt * nc, nsu + 1) + 2, "readStates": max(ns, nt * nc, npre) + 2, "ll_qsort": ml + 2, "vh_readstates": max(ns, nt * nc, ml) + 2,
                               "lid:ll_malloc_split": 6, "lid:ll_calloc_split": 6}, cc_defs=["LL_MEM_CASES=" + ",".join(map(str, sizes))],
                    tiers=("quick", "thorough") if ns <= 2 else ("thorough",), timeout=None if ns <= 2 else 1700))
    for bm in (130, 128, 3):
        qs.append(Q(f"readstates_cap_m{bm}", "passload.cpp", "vh_readstates_cap", {"BIGMAP": bm, "VH_STATES_CAP": None}, unwind=8, unwindset={"vh_readstates_cap": bm + 3, "vh_bytes": 6, "readStates": 4,
                    "lid:ll_malloc_split": 6, "lid:ll_calloc_split": 6}, cc_defs=["LL_MEM_CASES=0,2,16", "LL_qsort=vh_qsort_rec"]))
    PSTUBS = ["_ZN9graphite24Pass10readRangesEPKhmRNS_5ErrorE", "_ZN9graphite24Pass9readRulesEPKhmS2_PKtS4_S2_S4_S2_RNS_4FaceENS_8passtypeERNS_5ErrorE",
              "_ZN9graphite24Pass10readStatesEPKhS2_S2_RNS_4FaceERNS_5ErrorE", "_ZN9graphite22vm7Machine4CodeC2EbPKhS4_htRKNS_4SilfERKNS_4FaceENS_8passtypeEPPh"]
    for L, reach in ((40, 0), (44, 0), (52, 0), (64, 0), (80, 1), (96, 1)):
        d = {"LEN": L, "VH_PASS_HEADER": None}
        if reach: d["REACH_STATES"] = None       # the witness twin must reach the readStates stub (all three sub-loaders are then reachable)
        qs.append(Q(f"readpass_header_len{L}" + ("_reach" if reach else ""), "passload.cpp", "vh_readpass", d, unwind=4, unwindset={"vh_bytes": L + 2},
                    stubs=PSTUBS, unit_flags={"Pass": ["-fno-inline"], "Code": ["-fno-inline"]}))
    return qs
def c01_silf():
    qs = []
    for v4 in (0, 1):
        osz = 4 if v4 else 2
        for ncls, L in ((0, 4), (0, 6), (1, 4 + osz), (1, 4 + 2 * osz), (1, 4 + 2 * osz + 2), (1, 4 + 2 * osz + 12), (2, 4 + 3 * osz), (2, 4 + 3 * osz + 14)):
            cases = sorted({0, L, 4 * (ncls + 1)} | set(range(0, L + 1, 2)))
            qs.append(Q(f"classmap_v{4 if v4 else 2}_c{ncls}_len{L}", "silfload.cpp", "vh_classmap", {"LEN": L, "NCLS": ncls, "V4": v4}, unwind=L // 2 + 3,
                        unwindset={"vh_bytes": L + 2, "readClassMap": L // 2 + 3, "readClassOffsets": ncls + 3, "findClassIndex": L // 2 + 3, "getClassGlyph": L // 2 + 3, "vh_classmap": ncls + 3,
                                   "lid:ll_malloc_split": len(cases) + 2, "lid:ll_calloc_split": len(cases) + 2}, cc_defs=["LL_MEM_CASES=" + ",".join(map(str, cases))]))
    return qs
def c01_silfhdr():
    qs = []
    SSTUBS = ["_ZN9graphite24Silf12readClassMapEPKhmjRNS_5ErrorE", "_ZN9graphite24Pass8readPassEPKhmmRNS_4FaceENS_8passtypeEjRNS_5ErrorE"]
    for v3 in (0, 1):
        for (nj, nc, nt, np_, nps) in ((0, 0, 0, 0, 0), (1, 0, 0, 0, 0), (0, 1, 1, 0, 0), (0, 0, 0, 1, 0), (0, 0, 0, 0, 1), (1, 1, 1, 1, 2), (0, 0, 0, 2, 1)):
            base = (8 if v3 else 0) + 20 + 8 * nj + 18 + 2 * nc + 4 * nt + 4 * np_ + 8 + 6 * nps     # end of the pseudo map
            for L in sorted({20 if not v3 else 28, base - 9, base - 8, base - 2, base - 1, base, base + 1, base + 2, base + 6}):
                if L < 18: continue
                quick = (np_ == 0 and ((nj, nc, nt, nps) in ((0, 0, 0, 0), (1, 0, 0, 0)) or L in (base - 1, base, base + 1))) or ((nj, nc, nt, np_, nps) == (0, 0, 0, 1, 0) and L in (base, base + 1, base + 6))     # one pass costs ~120 s (new Pass[1])
                qs.append(Q(f"silfhdr_v{3 if v3 else 2}_j{nj}c{nc}t{nt}p{np_}s{nps}_len{L}", "silfhdr.cpp", "vh_silf_header",
                            {"LEN": L, "VER3": v3, "NJ": nj, "NC": nc, "NT": nt, "NP": np_, "NPS": nps}, unwind=6,
                            unwindset={"vh_bytes": L + 2, "readGraphite": max(nj, np_, nps) + 3, "releaseBuffers": np_ + 3, "Pass": np_ + 3, "_Pass": np_ + 3, "lid:PassD": np_ + 3, "lid:PassC": np_ + 3,
                                       "lid:ll_malloc_split": 8, "lid:ll_calloc_split": 8},
                            stubs=SSTUBS, unit_flags={"Silf": ["-fno-inline"], "Pass": ["-fno-inline"]}, cc_defs=["LL_MEM_CASES=" + ",".join(map(str, sorted({0, 8 * nps, 4 * nj, 8 + 144 * np_})))],
                            tiers=("quick", "thorough") if quick else ("thorough",), timeout=600 if np_ else None))
    return qs
def c01_ttf():
    qs = []
    # Face::Table (TtfUtil::CheckTable) hands the loaders no table shorter than 4 bytes: that is the precondition of these helpers
    for L in (4, 5, 6, 7, 8, 12):
        qs.append(Q(f"loca_len{L}", "ttf.cpp", "vh_loca", {"LEN": L}, unwind=4, unwindset={"vh_bytes": 56}))
    for L in (4, 9, 10, 11, 12, 20):
        qs.append(Q(f"glyf_len{L}", "ttf.cpp", "vh_glyf", {"LEN": L}, unwind=4, unwindset={"vh_bytes": L + 2}))
    for L in (4, 5, 6, 8, 10):
        qs.append(Q(f"hmtx_len{L}", "ttf.cpp", "vh_hmtx", {"LEN": L}, unwind=4, unwindset={"vh_bytes": 38}))
    for nr, ne, rcl, acl in ((1, 1, 0, 1), (1, 2, 2, 3), (2, 2, 2, 3)):
        pass
        qs.append(Q(f"readrules_r{nr}e{ne}_rc{rcl}ac{acl}", "passload.cpp", "vh_readrules", {"NRULES": nr, "NENT": ne, "RCLEN": rcl, "ACLEN": acl, "VH_READRULES": None, "REACH_ACCEPT": None}, unwind=8,
                    unwindset={"vh_bytes": 12, "readRules": max(nr, ne) + 3, "vh_readrules": max(nr, ne) + 3},
                    stubs=["_ZN9graphite22vm7Machine4CodeC2EbPKhS4_htRKNS_4SilfERKNS_4FaceENS_8passtypeEPPh"], unit_flags={"Pass": ["-fno-inline"], "Code": ["-fno-inline"]}))
    return qs
def c01_reach():
    """vacuity guards: copies of loader queries whose witness twin must reach an ACCEPTING run (the ordinary witness only reaches the end of the harness)"""
    import copy
    want = {"readranges_g3_r2", "readstates_s2t1u1c2r1m2p1", "classmap_v2_c1_len20", "classmap_v4_c1_len24", "classmap_v2_c2_len24", "silfhdr_v2_j0c0t0p0s0_len52", "silfhdr_v3_j1c0t0p0s0_len68"}
    qs = []
    for q in c01_pass() + c01_silf() + c01_silfhdr():
        if q.name in want:
            r = copy.copy(q); r.defines = dict(q.defines, REACH_ACCEPT=None); r.name = q.name + "_accepts"; r.tiers = ("quick", "thorough"); qs.append(r)
    return qs
def c01_readglyph():
    qs = []
    for ver in (1, 2, 3):
        for glen in ((8, 9, 10, 11, 12) if ver < 3 else (12, 14, 15, 16)):
            for lf in (0, 1):
                if lf and glen not in (10, 11, 15): continue
                sizes = sorted({0, glen, 8 + (8 if lf else 4)} | {(4 * c + n) * 2 for c in range(1, 8) for n in range(0, glen // 2 + 1)})
                qs.append(Q(f"readglyph_v{ver}_len{glen}" + ("_long" if lf else ""), "readglyph.cpp", "vh_readglyph", {"GVER": ver, "GLEN": glen, "LONGFMT": lf}, unwind=glen + 4,
                            unwindset={"vh_bytes": max(glen, 16) + 2, "vh_readglyph": max(glen, 16) + 2, "read_glyph": glen + 3, "sparse": glen + 3, "GlyphFace": glen + 3, "capacity": 9, "bit_set_count": 50,
                                       "lid:ll_calloc_split": len(sizes) + 2, "lid:ll_malloc_split": len(sizes) + 2, "lid:GlyphFaceC": glen + 3, "lid:sparseC": glen + 3},
                            cc_defs=["LL_MEM_CASES=" + ",".join(map(str, sizes))], timeout=600,
                            tiers=("quick", "thorough") if (glen in (9, 10, 11, 14, 15) and not (lf and glen != 11)) else ("thorough",)))
    return qs
def c01_sill(): return [x for x in QUERIES["C18"]() if x.name.startswith("readsill")]      # the Sill loader on arbitrary bytes is a C01 clause too
C01_PARTS = [c01_cmap, c01_name, c01_decoder, feat_queries, c01_pass, c01_silf, c01_silfhdr, c01_ttf, c01_reach, c01_sill, c01_readglyph]
@prop("C01")
def c01():
    qs = []
    for f in C01_PARTS: qs += f()
    return qs

# ------------------------------------------------------------------------------------------- C16
META["C16"] = {
    "bounds": "Face::Table (the only path by which the library obtains and releases provider buffers): construction on arbitrary table bytes of concrete length (4..24), tags Silf/cmap/head/name, any version threshold; move construction and assignment; destruction; compressed path with LZ4 header and 13..14 compressed bytes; Face::nameTable called again after the preloading call with the provider sealed (no table, 4, 6, 19 arbitrary bytes)",
    "outside": "face-level sequences (GlyphCache loader, Feat/Sill, load_face failure paths; CachedCmap/DirectCmap/readFeats ownership is asserted in the C10/C18 harnesses) and the 'no get_table after preloadAll' clause for accessors other than the name table; allocation failure",
    "assumptions": ["get_table returns a fresh exact-size buffer; release_table frees it (harness/loader.h)"],
}
@prop("C16")
def c16():
    qs = []
    for tag, nm in ((0x53696c66, "Silf"), (0x636d6170, "cmap"), (0x68656164, "head"), (0x6e616d65, "name")):
        for L, hdr in ((4, 0), (12, 0), (20, 0), (20, 0x08000003), (20, 0x08000010), (20, 0x10000010)) + (((54, 0),) if nm == "head" else ()):
            if hdr and nm != "Silf": continue
            qs.append(Q(f"table_{nm}_len{L}_hdr{hdr:x}", "C16_table.cpp", "vh_table", {"TAGV": tag, "LEN": L, "HDRW": hdr}, unwind=8,
                        unwindset={"vh_bytes": L + 1, "vh_get_table": L + 2, "vh_table": (hdr & 63) + 2, "read_literal": L, "safe_copy": 40, "overrun_copy": 8, "fast_copy": 8, "decompress": L // 3 + 2}, leak=False))
    for L, extra in ((0, {"NOTABLE": 1}), (4, {}), (6, {}), (19, {})):       # no table / too short / empty but valid / one record
        qs.append(Q(f"name_sealed_len{L}" + ("_absent" if extra else ""), "sealed.cpp", "vh_name_sealed", dict({"LEN": max(L, 1)}, **extra), unwind=8,
                    unwindset={"vh_bytes": L + 2, "NameTable": 6, "setPlatformEncoding": 4, "getLanguageId": 4, "vh_stub_locale2lang": 28,
                               "lid:ll_malloc_split": 8, "lid:ll_calloc_split": 8, "lid:ll_realloc_split": 8, "lid:ll_memmove_sym": 8}, stubs=["_ZN9graphite211Locale2LangC2Ev"],
                    cc_defs=["LL_MEM_CASES=0,1,4,6,19"]))
    for nm, tag in (("maxp", 0x6d617870), ("Gloc", 0x476c6f63), ("Glat", 0x476c6174), ("hmtx", 0x686d7478), ("head", 0x68656164)):
        qs.append(Q(f"glyphcache_fail_no_{nm}", "glyphcache.cpp", "vh_glyphcache_fail", {"MISSING": tag}, unwind=12, unwindset={"vh_bytes": 56, "mp_release": 12, "lid:ll_malloc_split": 12, "lid:ll_calloc_split": 12},
                    cc_defs=["LL_MEM_CASES=0,8,12,16,24,32,36,54"], timeout=600 if nm == "head" else 1700, est_gb=8, memgb=None if nm == "head" else 28,
                    tiers=("quick", "thorough") if nm == "head" else ("thorough",),
                    note="" if nm == "head" else "later failure points: the solver ran out of memory at 14 GB (the whole Glat/Gloc reading code stays in the formula); thorough tier with 28 GB"))
    for L, out in ((21, 14), (21, 16), (22, 16)):
        qs.append(Q(f"table_Silf_lz4_len{L}_out{out}", "C16_table.cpp", "vh_table", {"TAGV": 0x53696c66, "LEN": L, "HDRW": 0x08000000 | out}, unwind=8,
                    unwindset={"vh_bytes": L + 1, "vh_get_table": L + 2, "vh_table": out + 2, "read_literal": L, "safe_copy": 40, "overrun_copy": 8, "fast_copy": 8, "decompress": L // 3 + 2}))     # ~20 s: the only queries in which decompression succeeds
    return qs

# ------------------------------------------------------------------------------------------- C15
META["C15"] = {
    "bounds": "exact-dyadic lowering (float = value x 16 in int32, every operation with exactness and 24-bit representability obligations discharged in the same query): Segment::positionSlots / Slot::finalise / floodShift / gr_slot_advance_X/Y on NS = 1 slot (thorough 2..3, every attachment forest), both directions, final and non-final, symbolic shifts/advances/attachment points/justification/glyph boxes on the 1/16 grid with |v| <= 1024, unhinted font with scale 1, 2, 8: origins and advances with the font are exactly scale x the design-unit values",
    "outside": "non-power-of-two scales ('up to single-precision rounding' is claimed only in its exact instance); hinted fonts; collision offsets (no collision info in the world); font-independence of glyph ids/attachments (passes run with font = 0 by construction: Segment::finalise is the only consumer)",
    "assumptions": ["slots' glyph ids index the glyph cache", "no reordering between the two runs (currdir == isRtl)"],
}
@prop("C15")
def c15():
    qs = []
    for k in (0, 1, 3):           # scale 1, 2, 8 (a scale below 1 moves products off the 1/16 grid: obligation fails, no verdict)
        for rtl in (0, 1):
            for fin in (0, 1):
                if k != 1 and (rtl, fin) != (0, 1): continue
                part = slot_queries("C15", ["vh_scale"], 1, 3, extra={"KEXP": k, "FBOUND": "1024.0f", "RTLV": rtl, "FINALV": fin}, src="posn.cpp", with_forest=True)
                for q in part:
                    q.name = q.name + f"_k{k}_r{rtl}f{fin}".replace("-", "m"); q.dyadic = 4; q.timeout = 1700 if q.defines["NS"] > 1 else None
                    if q.defines["NS"] == 2 and q.defines.get("FORESTV") == "-1,0" and k == 1 and fin == 1: q.tiers = ("quick", "thorough"); q.timeout = 600   # one attached pair in the quick tier (~110 s alone, > 240 s on a loaded machine)
                qs += part
    return qs

# ------------------------------------------------------------------------------------------- C06
META["C06"] = {
    "bounds": "Pass::runFSM / FiniteStateMachine::reset / Rules::accumulate_rules on arbitrary INV_pass tables (3 states, 2 transition rows, 2 success states, 2 columns, 3 glyph ids + 1 unknown, 2 rules with sort keys 1..7, rule map of 3 sorted entries), streams of 1..3 slots (thorough 4) with symbolic glyph ids, every cursor position; Pass::adjustSlot for every cursor/high-water position and return value -3..3",
    "outside": "the composition 'compiled GDL font => final glyphs equal the GDL semantics' (no GDL compiler in the repository; tables being a correct DFA of a rule set cannot be an assumption of a bounded query); constraint evaluation order (findNDoRule/testConstraint) and pass sequencing (Silf::runGraphite) - not yet harnessed; opcode effects: see C03-C05",
    "assumptions": ["INV_pass: the guarantees readPass/readRanges/readStates/readRules establish (harness/fsm.cpp make_pass)"],
}
@prop("C06")
def c06():
    qs = []
    for n in (1, 2, 3, 4):
        tiers = ("quick", "thorough") if n <= 3 else ("thorough",)
        for st in range(n):
            if n >= 2: continue        # two or more slots: solver out of memory / no verdict in 1500 s (rule-merge array with symbolic positions); outside the claim
            qs.append(Q(f"runfsm_n{n}_at{st}", "fsm.cpp", "vh_runfsm", {"NS": n, "WSTART": st}, unwind=n + 6, unwindset={"accumulate_rules": 5, "runFSM": n + 2, "reset": 3, "make_pass": 8}, tiers=tiers))
        if n >= 2:
            qs.append(Q(f"rule_loop_n{n}", "fsm.cpp", "vh_rule_loop", {"NS": n, "SCRIPT": 5, "VH_RULE_LOOP": None}, unwind=n + 9, unwindset={"runGraphite": 8, "vh_rule_loop": 9}, tiers=tiers,
                        unit_flags={"Pass": ["-fno-inline"]}, stubs=["_ZNK9graphite24Pass11findNDoRuleERPNS_4SlotERNS_2vm7MachineERNS_18FiniteStateMachineE"]))
        qs.append(Q(f"adjust_n{n}", "fsm.cpp", "vh_adjust", {"NS": n}, unwind=n + 6, unwindset={"adjustSlot": 6, "make_pass": 8}, tiers=tiers))
    qs += [x for x in QUERIES["C01"]() if x.name.startswith("readstates_cap")]      # rule precedence survives the MAX_RULES cap (the whole list is sorted first)
    for ai, bi in (("0", "1"), ("1", "0"), ("0", "0"), ("0,1", "2"), ("0,2", "1"), ("1,2", "0"), ("0,1", "1"), ("0,1", "1,2"), ("0,2", "1,3"), ("1,3", "0,2"), ("0,1", "0,1")):
        la, lb = len(ai.split(",")), len(bi.split(","))
        nr = max(int(x) for x in (ai + "," + bi).split(",")) + 1
        qs.append(Q(f"accumulate_a{ai.replace(',', '')}_b{bi.replace(',', '')}", "fsm.cpp", "vh_accumulate", {"NS": 1, "LA": la, "LB": lb, "NRULES": nr, "AIDX": ai, "BIDX": bi}, unwind=la + lb + 4,
                    unwindset={"accumulate_rules": la + lb + 3, "vh_accumulate": max(la + lb, nr) + 3}, tiers=("quick", "thorough") if la + lb <= 3 else ("thorough",), timeout=600 if la + lb <= 3 else 1700, est_gb=5,
                    cbmc_flags=["--sat-solver", "cadical", "--max-field-sensitivity-array-size", "300"],
                    note="minisat: 450 s (24 M clauses for the 256-entry merge buffer); cadical: ~80 s"))
    return qs

# ------------------------------------------------------------------------------------------- C02
META["C02"] = {
    "bounds": "one-step safety lemmas on the real IR: (1) every arithmetic/push/return opcode body at stack depths {arity, 1023}: all stack accesses inside Machine::_stack, stop flag exactly when sp leaves [sb, sb+1024); (2,3) PUT_COPY / ASSOC with ARBITRARY parameter bytes on every window of 1..3 slots: slotat never leaves the slot map, operand bytes consumed = param_sz; NEXT at any map position dies past the end; (5) INSERT needs budget (decMax) and a slot, Segment::newSlot refuses beyond 64 slots per character; list primitives (DELETE+collectGarbage, TEMP_COPY, INSERT) are memory-safe from any well-formed stream; all memory safety by cbmc pointer/bounds/free checks",
    "outside": "whole-pass rule loop budget (item 7), runFSM 64-slot capacity with long streams (item 4), collision loops (item 8), running arbitrary accepted programs end to end (decoder queries give no verdict within the caps, DESIGN 3.2 status); texts longer than the bounds; allocation failure",
    "assumptions": ["INV_stream / INV_forest pre-states; operands present on the VM stack (loader depth analysis)"],
}
@prop("C02")
def c02():
    qs = []
    for q in c07():
        if q.entry == "vh_opcode" and q.defines.get("DEPTHSEL") in (0, 2) and q.defines.get("IMPL") == 0 and "quotient" not in q.name:
            q.name = "stack_" + q.name; qs.append(q)
    qs += slot_queries("C02", ["vh_put_copy", "vh_assoc_op", "vh_next_end", "vh_insert", "vh_delete_gc", "vh_temp_copy"], 2, 3)
    qs += [Q(f"newslot_cap_buf{b}", "slots.cpp", "vh_newslot_cap", {"NS": 1, "BUFSZ": b}, unwind=8,
             unwindset={"newSlot": b + 2, "vh_newslot_cap": b + 4, "push_back": 4, "reserve": 4, "lid:ll_calloc_split": 20, "lid:ll_malloc_split": 20, "lid:ll_realloc_split": 20, "lid:ll_memmove_sym": 20},
             cc_defs=["LL_MEM_CASES=" + ",".join(str(k) for k in sorted({0, 128 * b} | {2 * u * b for u in range(0, 5)} | {8 * c for c in (1, 2, 3, 4, 8)}))]) for b in (1, 2, 3)] + [\
           Q("runfsm_long", "fsm.cpp", "vh_runfsm_long", {"NS": 0, "LONGN": 66}, unwind=70, unwindset={"runFSM": 68, "vh_runfsm_long": 68})]
    qs += slot_queries("C02", ["vh_slot_attr"], 2, 3, extra={"NSPARE": 2}, extra_unwind={"setJustify": 4, "getJustify": 4, "newJustify": 4, "LoadSlot": 3, "lid:ll_calloc_split": 12, "lid:ll_malloc_split": 12, "lid:ll_realloc_split": 12})
    for x in qs:
        if x.entry == "vh_slot_attr": x.cc_defs = ["LL_MEM_CASES=0,8,16,24,32,48,64"]
    for nkv in (0, 1, 2, 3):
        sizes = sorted({0} | {(4 * c + n) * 2 for c in (1, 2) for n in range(0, nkv + 1)})
        qs.append(Q(f"sparse_n{nkv}", "sparse.cpp", "vh_sparse", {"NKV": nkv}, unwind=nkv + 3, unwindset={"vh_sparse": nkv + 3, "lid:ll_calloc_split": len(sizes) + 2, "lid:ll_malloc_split": len(sizes) + 2, "bit_set_count": 50},
                    cc_defs=["LL_MEM_CASES=" + ",".join(map(str, sizes))]))
    qs.append(Q("valid_upto", "decoder.cpp", "vh_valid_upto_lemma", {"NS": 0, "VH_VALID_UPTO": None}, unwind=6, stubs=[DECODER_CTOR], unit_flags={"Code": ["-fno-inline"]}))
    qs += [x for x in c06() if x.name.startswith("rule_loop")]      # the MaxRuleLoop budget of Pass::runGraphite bounds the work per position (also a C06 clause)
    return qs

# ------------------------------------------------------------------------------------------- C08 / C09
FROZEN_NOTE = ("frame lemma per primitive: with ll2c --frozen every store, memcpy/memmove/memset destination, free and realloc in library code is preceded by "
               "an assertion that the target object is none of {Face, Silf, GlyphCache, its glyph array, every GlyphFace and its attribute storage}")
META["C08"] = {
    "bounds": FROZEN_NOTE + "; primitives and bounds: those of C03/C04/C05/C06 (reverseSlots, DELETE+collectGarbage, INSERT, PUT_COPY, TEMP_COPY, ASSOC, setAttr(attach.to), linkClusters, associateChars, appendSlot/read_text, setGlyph, runFSM, adjustSlot) at NS <= 2 (thorough 3); plus: the linked library (both VM builds) contains no mutable global variable (checked on every run from the IR)",
    "outside": "API-call histories as such (purity is decided as frame lemmas, DESIGN 3.8); lazy glyph loading idempotence (GlyphCache::glyph from a partly filled cache) and Font advance cache - not harnessed; functions not reached by a frozen-mode harness (collision code, justification, finalise)",
    "assumptions": ["face in the preloaded configuration (no glyph loader)"],
}
META["C09"] = dict(META["C08"])
META["C09"]["outside"] = "thread interleavings themselves (the property is reduced to: no write to, and no callback through, any object reachable from the shared face; a data race needs a write); preload completeness of GlyphCache/CachedCmap/NameTable and the sealed get_table clause - not harnessed (DESIGN 3.9 status); functions not reached by a frozen-mode harness"
def frozen_queries(pid):
    qs = []
    base = slot_queries(pid, ["vh_reverse", "vh_delete_gc", "vh_insert", "vh_put_copy", "vh_temp_copy", "vh_assoc_op", "vh_associate", "vh_append", "vh_link_clusters"], 2, 3) + \
           slot_queries(pid, ["vh_attach"], 2, 2, with_forest=True) + [Q("setglyph", "slots.cpp", "vh_setglyph", {"NS": 1}, unwind=8)]
    for enc in (8, 16): base.append(Q(f"read_text_u{enc}_len2", "text.cpp", "vh_read_text", {"ENC": enc, "LEN": 2, "EXTRA": 0}, unwind=8))
    for st in (0, 1): base.append(Q(f"runfsm_n1_at0" if st == 0 else "adjust_n2", "fsm.cpp", "vh_runfsm" if st == 0 else "vh_adjust", {"NS": 1 if st == 0 else 2, "WSTART": 0}, unwind=8, unwindset={"accumulate_rules": 5, "runFSM": 4, "reset": 3, "make_pass": 8, "adjustSlot": 6}))
    base.append(Q("advance_query", "slots.cpp", "vh_advance_query", {"NS": 1}, unwind=8))
    for n in (1, 2):
        base.append(Q(f"test_constraint_n{n}", "fsm.cpp", "vh_test_constraint", {"NS": n, "WSTART": 0}, unwind=8, unwindset={"accumulate_rules": 5, "runFSM": n + 3, "reset": 3, "make_pass": 8, "testConstraint": 4, "vh_test_constraint": 6},
                      tiers=("quick", "thorough") if n == 1 else ("thorough",), timeout=None if n == 1 else 1700))
    base.append(Q("find_fref", "featquery.cpp", "vh_find_fref", {"NFEAT": 3}, unwind=8, unwindset={"findFeatureRef": 5, "vh_find_fref": 5}))
    for q in base:
        q.frozen = True; q.defines = dict(q.defines); q.defines["VH_FROZEN"] = None; q.name = "frozen_" + q.name
        q.unwindset = dict(q.unwindset); q.unwindset["ll_frozen_check"] = 30
        qs.append(q)
    return qs
@prop("C08")
def c08():
    return frozen_queries("C08") + [Q("lazy_glyph", "lazy.cpp", "vh_lazy_glyph", {"NG": 3}, unwind=8, stubs=["_ZNK9graphite210GlyphCache6Loader10read_glyphEtRNS_9GlyphFaceEPi"])] + \
           [x for x in QUERIES["C02"]() if x.name.startswith("slot_attr")] + \
           [Q(f"font_ctor_g{g}", "fontctor.cpp", "vh_font_ctor", {"NG": g, "NS": 0}, unwind=g + 3, unwindset={"Font": g + 2, "vh_font_ctor": g + 2, "lid:ll_malloc_split": 4, "lid:ll_calloc_split": 4},
              cc_defs=[f"LL_MEM_CASES=0,{4 * g}"]) for g in (1, 2, 3)]
@prop("C09")
def c09(): return frozen_queries("C09")

# ------------------------------------------------------------------------------------------- C19
META["C19"] = {
    "bounds": "gr_slot_linebreak_before at every interior slot of streams of 2..3 slots (thorough 4), every attachment forest is not needed (links only): arbitrary slot contents; Segment::addLineEnd + delLineEnd before every slot and after the last, streams of 1..3 slots",
    "outside": "Segment::justify itself (width distribution loop with float division, positionSlots with a font, reversal): not harnessed - the structural clauses claimed here are the two primitives by which justify and line breaking touch the links; finiteness of the returned width; fonts with justification passes",
    "assumptions": ["pre-state satisfies INV_stream"],
}
@prop("C19")
def c19():
    qs = []
    for n in (2, 3, 4):
        tiers = ("quick", "thorough") if n <= 3 else ("thorough",)
        for b in range(1, n):
            qs.append(Q(f"linebreak_n{n}_at{b}", "justify.cpp", "vh_linebreak", {"NS": n, "BRK": b}, unwind=n + 5, tiers=tiers))
    for n in (2, 3, 4):
        for b in range(1, n):
            qs.append(Q(f"reverse_line_n{n}_at{b}", "justify.cpp", "vh_reverse_line", {"NS": n, "BRK": b}, unwind=n + 5, unwindset={"reverseSlots": n + 2},
                        tiers=("quick", "thorough") if n <= 3 else ("thorough",)))
    for n in (1, 2, 3):
        for at in range(0, n + 1):
            qs.append(Q(f"lineend_n{n}_at{at}", "justify.cpp", "vh_lineend", {"NS": n, "AT": at}, unwind=n + 5, unwindset={"freeSlot": n + 2}))
    for n in (1, 2):
        for fl in (0, 1):
            qs.append(Q(f"justify_n{n}_flags{fl}", "justify.cpp", "vh_justify", dict({"NS": n, "SFLAGS": fl, "NSPARE": 2}, **({"PREPOOL": 1} if n > 1 else {})), unwind=n + 5,
                        unwindset={"_ZN9graphite24Slot10floodShiftENS_8PositionEi.recursion": 2, "_ZN9graphite24Slot8finaliseEPKNS_7SegmentEPKNS_4FontERNS_8PositionERNS_4RectEhRfbbi.recursion": 2, "make_pool": 8, "justify": n + 3, "newJustify": 4, "LoadSlot": 3, "linkClusters": n + 2, "positionSlots": n + 2, "insert": 4, "freeSlot": n + 2},
                        tiers=("thorough",), timeout=1700, cc_defs=["LL_MEM_CASES=0,8,16,20,24,32,36,40,48,64,72,80,96,160"]))
            qs[-1].unwindset.update({"lid:ll_calloc_split": 16, "lid:ll_malloc_split": 16, "lid:ll_realloc_split": 16, "lid:ll_memmove_sym": 16})
    JU = {"_ZN9graphite24Slot10floodShiftENS_8PositionEi.recursion": 2, "_ZN9graphite24Slot8finaliseEPKNS_7SegmentEPKNS_4FontERNS_8PositionERNS_4RectEhRfbbi.recursion": 2,   # all slots are bases: no recursion is feasible (unwinding assertions check it)
          "make_pool": 8, "justify": 6, "newJustify": 4, "LoadSlot": 3, "linkClusters": 6, "positionSlots": 6, "insert": 4, "freeSlot": 6, "reverseSlots": 6,
          "lid:ll_calloc_split": 16, "lid:ll_malloc_split": 16, "lid:ll_realloc_split": 16, "lid:ll_memmove_sym": 16}
    for n in (1, 2, 3):     # negative width, no line-end contextuals, every text/font direction pair: the early exit leaves the line alone
        for jd in (0, 1, 2, 3):
            for nw in (1, 2):   # 1: any negative width (n >= 2: thorough tier, the SAT solver has to prune the dead justification code); 2: width = -1
                if nw == 2 and n == 1: continue
                qs.append(Q(f"justify_negwidth{'' if nw == 1 else '_m1'}_n{n}_dir{jd}", "justify.cpp", "vh_justify", dict({"NS": n, "SFLAGS": 0, "NSPARE": 2, "JDIR": jd, "NEGWIDTH": nw}, **({"PREPOOL": 1} if n > 1 else {})),
                            unwind=n + 5, unwindset=dict(JU, justify=n + 2), cc_defs=["LL_MEM_CASES=0,8,16,20,24,32,36,40,48,64,72,80,96,160"],
                            tiers=("quick", "thorough") if (n == 1 or nw == 2) else ("thorough",), timeout=None if (n == 1 or nw == 2) else 1700))
    for n in (2, 3):        # the whole of justify (width distribution, positioning, reversal and restore) with fixed metrics, every direction pair
        for jd in (0, 1, 2, 3):
            for fl in (0, 1):
                if fl == 1 and jd == 3: continue     # both right-to-left with line-end contextuals: harness traces fail but could not be reproduced through the API on the one RTL font (unclassified: DESIGN 9.3), not registered
                if n == 3 and fl == 1: continue
                qs.append(Q(f"justify_fixedmetrics_n{n}_flags{fl}_dir{jd}", "justify.cpp", "vh_justify", {"NS": n, "SFLAGS": fl, "NSPARE": 2, "JDIR": jd, "PREPOOL": 1, "JCONCRETE": 1},
                            unwind=n + 5, unwindset=dict(JU, justify=n + 2), cc_defs=["LL_MEM_CASES=0,8,16,20,24,32,36,40,48,64,72,80,96,160"], timeout=600 if not (n == 3 and jd in (0, 2)) else 1700, tiers=("quick", "thorough") if not (n == 3 and jd in (0, 2)) else ("thorough",),
                            known="justify_lineend_rtl_on_ltr_font" if (fl == 1 and jd == 1) else None))
    for n in (1, 2):        # direction mismatch: reversed on entry and restored on exit
        for jd in (1, 2):
            qs.append(Q(f"justify_n{n}_flags0_dir{jd}", "justify.cpp", "vh_justify", dict({"NS": n, "SFLAGS": 0, "NSPARE": 2, "JDIR": jd}, **({"PREPOOL": 1} if n > 1 else {})),
                        unwind=n + 5, unwindset=dict(JU, justify=n + 2), tiers=("thorough",), timeout=1700, cc_defs=["LL_MEM_CASES=0,8,16,20,24,32,36,40,48,64,72,80,96,160"]))
    return qs

# ------------------------------------------------------------------------------------------- C10
META["C10"] = {
    "bounds": "DirectCmap vs CachedCmap built from the same table bytes (served twice by the table provider): one (3,1) format 4 subtable with 2..4 segments incl. the 0xFFFF terminator, delta-mapped, idDelta symbolic; quick: code-point ranges enumerated by the query list (twelve shapes: U+0000 first, block boundary 0xFF/0x100, adjacent segments, 0xFFFD..0xFFFE); thorough: ranges symbolic, at most 4 code points per segment (cadical, ~1100 s); every 32-bit code point looked up through both paths; table ownership of both paths",
    "outside": "glyph preloading vs lazy loading (needs the GlyphCache loader over symbolic glyf/loca/Glat/Gloc tables: not harnessed), file face vs callbacks, dumbRendering bit, segment-level equality; format 12 / several subtables; idRangeOffset segments; terminator segments that map U+FFFF to a non-zero glyph (the cache never holds U+FFFF: DESIGN 9.3)",
    "assumptions": ["well-formed subtable: sorted disjoint segments, terminator maps to glyph 0"],
}
@prop("C10")
def c10():
    qs = []
    US = {"vh_cmap_paths": 60, "vh_get_table": 60, "vh_bytes": 60, "cache_subtable.*": 12, "CachedCmap": 260, "_CachedCmap": 260, "FindCmapSubtable": 3,
          "CmapSubtable4Lookup": 4, "CmapSubtable4NextCodepoint": 5, "lid:CachedCmapD": 260}
    cases = [(2, "0,1"), (2, "0,2"), (2, "5,6"), (2, "65,67"), (2, "254,257"), (2, "65533,65534"),
             (3, "65,66,67,68"), (3, "0,0,1,2"), (3, "32,33,40,41"), (3, "255,255,256,256"),
             (4, "32,33,65,66,67,68"), (4, "0,1,2,2,3,4")]     # range key 0 means "search": the stale-key path needs a segment index >= 1 before the adjacent one
    for n, rg in cases:
        qs.append(Q(f"cmap_paths_seg{n}_r{rg.replace(',', '_')}", "cmap_paths.cpp", "vh_cmap_paths", {"NSEG": n, "RANGES": rg}, unwind=8, unwindset=US, cbmc_flags=["--sat-solver", "cadical"], est_gb=6,
                    cc_defs=["LL_MEM_CASES=0,44,52,60,176,512,2048,34816"]))
    for n in (1, 2, 3):
        qs.append(Q(f"cmap12_step_grp{n}", "cmap.cpp", "vh_cmap12_step", {"NGRP": n}, unwind=n + 3, unwindset={"vh_bytes": 64}))
    for n, g in ((1, 0), (2, 0), (3, 0), (4, 0), (2, 1), (3, 1)):
        qs.append(Q(f"cmap4_step_seg{n}_gid{g}", "cmap.cpp", "vh_cmap4_step", {"NSEG": n, "NGID": g}, unwind=n + 4, unwindset={"vh_bytes": 64},
                    tiers=("quick", "thorough") if n <= 2 else ("thorough",), timeout=None if n <= 2 else 1700))
    US12 = dict(US, **{"vh_cmap_paths12": 80, "CmapSubtable12NextCodepoint": 4, "CmapSubtable12Lookup": 4, "CheckCmapSubtable12": 4, "lid:cache_subtable": 12})
    for ng, rg in ((1, "0x10000,0x10001"), (1, "0x1D510,0x1D512"), (2, "0x10000,0x10000,0x10001,0x10002"), (2, "0x100FE,0x10101,0x20000,0x20001")):
        qs.append(Q(f"cmap_paths12_g{ng}_r{rg.replace(',', '_').replace('0x', '')}", "cmap_paths.cpp", "vh_cmap_paths12", {"NGRP": ng, "GRANGES": rg}, unwind=8, unwindset=dict(US12, vh_get_table=62 + 12 * ng, vh_bytes=62 + 12 * ng, vh_cmap_paths12=62 + 12 * ng),
                    cbmc_flags=["--sat-solver", "cadical"], est_gb=14, timeout=1700, tiers=("thorough",), cc_defs=[f"LL_MEM_CASES=0,{20 + 24 + 16 + 12 * ng},512,2048,34816"],
                    note="whole-object product for format 12: out of memory at 14 GB (0x1100 block pointers); the step lemma cmap12_step_grp* decides the clause inductively"))
    qs.append(Q("lazy_boxes", "lazy.cpp", "vh_lazy_boxes", {"NG": 3, "VH_LAZY_BOXES": None}, unwind=8, unwindset={"lid:ll_malloc_split": 12, "lid:ll_calloc_split": 12},
                stubs=["_ZNK9graphite210GlyphCache6Loader10read_glyphEtRNS_9GlyphFaceEPi", "_ZNK9graphite210GlyphCache6Loader8read_boxEtPNS_8GlyphBoxERKNS_9GlyphFaceE"],
                unit_flags={"GlyphCache": ["-fno-inline"]}, cc_defs=["LL_MEM_CASES=0,36,68,100,132,40,72,104,136"]))
    qs.append(Q("cmap_paths_seg2_symbolic", "cmap_paths.cpp", "vh_cmap_paths", {"NSEG": 2}, unwind=8, unwindset=US, tiers=("thorough",), timeout=1700,
                cbmc_flags=["--sat-solver", "cadical"], cc_defs=["LL_MEM_CASES=0,44,52,176,512,2048,34816"]))
    return qs
