"""Query lists per property: each Query is one cbmc run (one harness entry at one concrete size tuple)."""
from run_check import Query as Q

META = {}
QUERIES = {}

def prop(pid):
    def deco(f): QUERIES[pid] = f; return f
    return deco

# ------------------------------------------------------------------------------------------- C20
META["C20"] = {
    "bounds": "gr_str_to_tag: every C string of length 0..8 (all non-NUL byte values) in an exact-size heap buffer; gr_tag_to_str: all 2^32 tags into an exact 4-byte buffer",
    "outside": "strings longer than 8 bytes",
    "assumptions": ["strlen is cbmc's built-in model"],
}
@prop("C20")
def c20():
    qs = []
    for n in range(0, 9):
        qs.append(Q(f"str_to_tag_len{n}", "C20_tags.cpp", "vh_str_to_tag", {"LEN": n}, unwind=12, tiers=("quick", "thorough") if n <= 6 else ("thorough",)))
    qs.append(Q("tag_to_str", "C20_tags.cpp", "vh_tag_to_str", unwind=6))
    qs.append(Q("roundtrip", "C20_tags.cpp", "vh_roundtrip", unwind=8))
    return qs

# ------------------------------------------------------------------------------------------- C11
META["C11"] = {
    "bounds": "gr_count_unicode_characters on exact-size heap buffers: UTF-8 0..6 bytes (thorough 0..8), UTF-16 0..4 units (thorough 5), UTF-32 0..3 units, with buffer_end and NUL-terminated with buffer_end==NULL; single codec step on exact 4-byte / 2-unit / 1-unit buffers; put/get on all scalar values",
    "outside": "longer buffers (codec is memoryless: state is (cp, sl)); encoded surrogate code points in UTF-8/UTF-32 are left unclassified (neither acceptance nor rejection is demanded); segment-level encoding equivalence is decided in C05",
    "assumptions": ["reference decoders from Unicode Table 3-7 (harness/utfref.h)", "surrogate code points encoded in UTF-8/UTF-32 excluded by assumption"],
}
@prop("C11")
def c11():
    qs = []
    for enc, qmax, tmax in ((8, 6, 8), (16, 4, 5), (32, 3, 3)):
        for n in range(0, tmax + 1):
            tiers = ("quick", "thorough") if n <= qmax else ("thorough",)
            qs.append(Q(f"count_end_u{enc}_len{n}", "C11_utf.cpp", "vh_count_end", {"ENC": enc, "LEN": n}, unwind=n + 6, tiers=tiers))
            qs.append(Q(f"count_nul_u{enc}_len{n}", "C11_utf.cpp", "vh_count_nul", {"ENC": enc, "LEN": n}, unwind=n + 6, tiers=tiers))
        qs.append(Q(f"get_step_u{enc}", "C11_utf.cpp", "vh_get_step", {"ENC": enc}, unwind=8))
        qs.append(Q(f"put_get_u{enc}", "C11_utf.cpp", "vh_put_get", {"ENC": enc}, unwind=8))
    return qs

# ------------------------------------------------------------------------------------------- C14
META["C14"] = {
    "bounds": "lz4::decompress on exact-size buffers: in_size 13..16 x out_size in_size+1..24 (quick subset), up to 20 x 32 (thorough); all input bytes symbolic",
    "outside": "blocks > 20 bytes / outputs > 32 bytes; blocks shorter than the decoder's documented 13-byte minimum; segment-level equality of compressed vs uncompressed fonts (content equality of the decompressed table is what is decided)",
    "assumptions": ["byte-wise reference LZ4 block decoder in harness/C14_lz4.cpp"],
}
@prop("C14")
def c14():
    qs = []
    quick = {(13, 14), (13, 16), (13, 17), (14, 15), (14, 16), (15, 16)}
    for i in range(13, 21):
        for o in range(i + 1, 33):
            if (i, o) in quick: tiers = ("quick", "thorough")
            elif i <= 16 and ((o - i) % 3 == 1 or o in (24, 25)) and o <= 25: tiers = ("thorough",)
            else: continue
            us = {"read_literal": i + 1, "safe_copy": o + 1, "overrun_copy": o // 8 + 2, "fast_copy": o // 8 + 2, "decompress": i // 3 + 2,
                  "ref_ext": i + 1, "ref_copy_lit": i + 1, "ref_copy_match": o + 1, "ref_lz4": i // 3 + 2, "vh_bytes": i + 1, "vh_lz4": o + 1}
            qs.append(Q(f"lz4_in{i}_out{o}", "C14_lz4.cpp", "vh_lz4", {"IN": i, "OUT": o}, unwind=o + 3, unwindset=us, tiers=tiers))
    return qs

# ------------------------------------------------------------------------------------------- C07
META["C07"] = {
    "bounds": "(a) each opcode body 0x00-0x18, 0x30-0x32, 0x3E-0x41, both code types, ALL 32-bit operand values and parameter bytes, any stack depth arity..1023; (c) all 67 opcode_table rows",
    "outside": "DIV quotient VALUE (two 32-bit dividers / a 64-bit multiplier: no verdict within 240 s on minisat, cadical, kissat, z3, cvc5 with and without bv-as-int; its fail-safe clause, operand order of the guards and stack movement ARE decided for all operands); whole-text shaping equality of the two interpreter builds (only the driver-equivalence lemma is decided); programs longer than the stated instruction bound",
    "assumptions": ["entry invariant: operands present on the stack (loader depth analysis, decided in C01/C02) and 0 <= sp-sb < STACK_MAX",
                    "opcodes 0x3E/0x3F follow the engine's numbering (BITOR, BITAND); doc/OpCodes.adoc lists them swapped (DESIGN 7)"],
}
ARITH_OPS = list(range(0x00, 0x19)) + [0x30, 0x31, 0x32, 0x3E, 0x3F, 0x40, 0x41]
@prop("C07")
def c07():
    qs = []
    for op in ARITH_OPS:
        for impl in (0, 1):
            for d in (0, 1, 2):
                defs = {"OPC": op, "IMPL": impl, "DEPTHSEL": d}
                if op == 0x09: defs["DIVMODE"] = 0      # fail-safe clause + sp/dp movement on ALL operands; quotient value: see META outside
                qs.append(Q(f"op{op:02x}_impl{impl}_d{d}", "C07_opcodes.cpp", "vh_opcode", defs, unwind=6,
                            cbmc_flags=["--max-field-sensitivity-array-size", "2048"] + (["--sat-solver", "cadical"] if op == 0x08 else [])))
    qs.append(Q("optable", "C07_opcodes.cpp", "vh_optable", unwind=4))
    return qs
