NOTES = "Solver-based checking of the real code (DESIGN.md). Every verdict is a cbmc answer over all symbolic contents inside concrete, stated size bounds; nothing is sampled. known_findings.txt lists repaired defects."
BASE_NOTE = "Trusted: clang-14 front end/-O1 pipeline (the shipped library is built by gcc), ll2c (validated per run by whole-library differential on the repo's fonttest inputs), cbmc 6.11 + SAT back end. Allocation failure out of scope. Nothing is claimed outside the stated bounds."
CLAIMED = {
 "C20": {"ref": "3.20", "text": "Bounded model checking of gr_str_to_tag / gr_tag_to_str from the real IR: every string of length 0..6 (thorough 0..8) over all byte values in an exact-size buffer, all 2^32 tags; out-of-bounds access decided by cbmc's pointer checks on the exact-size objects, values against a 4-line reference.",
         "note": BASE_NOTE + " strlen is cbmc's model."},
}
NOT_APPLICABLE = {}
