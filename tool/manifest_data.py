NOTES = "Solver-based checking of the real code (DESIGN.md). Every verdict is a cbmc answer over all symbolic contents inside concrete, stated size bounds; nothing is sampled. known_findings.txt lists repaired defects."
BASE_NOTE = "Trusted: clang-14 front end/-O1 pipeline (the shipped library is built by gcc), ll2c (validated per run by whole-library differential on the repo's fonttest inputs), cbmc 6.11 + SAT back end. Allocation failure out of scope. Nothing is claimed outside the stated bounds."
CLAIMED = {
 "C20": {"ref": "3.20", "text": "Bounded model checking of gr_str_to_tag / gr_tag_to_str from the real IR: every string of length 0..6 (thorough 0..8) over all byte values in an exact-size buffer, all 2^32 tags; out-of-bounds access decided by cbmc's pointer checks on the exact-size objects, values against a 4-line reference.",
         "note": BASE_NOTE + " strlen is cbmc's model."},
}
CLAIMED["C11"] = {"ref": "3.11", "text": "Bounded model checking of gr_count_unicode_characters and the _utf_codec<8/16/32> get/put/validate code from the real IR on exact-size heap buffers (UTF-8 0..6 bytes, UTF-16 0..4 units, UTF-32 0..3 units; thorough 8/5/3), all contents, with and without buffer_end, against reference decoders written from Unicode Table 3-7; single-step decode/resync lemma and put/get identity over all scalar values.",
         "note": BASE_NOTE + " Encoded surrogate code points in UTF-8/UTF-32 are left unclassified. Segment-level encoding equivalence is decided under C05."}
CLAIMED["C14"] = {"ref": "3.14", "text": "Bounded model checking of lz4::decompress from the real IR on exact-size in/out heap buffers (quick: in 13..15 x out up to 17; thorough: in 13..16 x out up to 25), all input bytes symbolic: memory safety by cbmc's pointer checks, soundness (accepted => byte-identical to a byte-wise reference LZ4 block decoder) and completeness (every block valid by the LZ4 end-of-block rules that fills the announced size and shrinks the data is accepted).",
         "note": BASE_NOTE + " Reference decoder is 25 lines in harness/C14_lz4.cpp. Table-level wrapper (Face::Table::decompress) is covered under C16/C01 when built."}
NOT_APPLICABLE = {}
