#!/bin/sh
# phases.sh <query build dir> [timeout]: re-run the kept main cbmc command of a query at verbosity 8 and print wall-clock stamps of the phases (calibration aid)
d=$1; t=${2:-600}
cmd=$(sed 's/--verbosity 6/--verbosity 8/; s/--json-ui//; s/--trace//' $d/cmd.m.txt)
start=$(date +%s)
timeout $t sh -c "$cmd" 2>&1 | while IFS= read -r l; do case "$l" in *Runtime*|*"size of program"*|*Generated*|*variables*|*"Passing problem"*|*"converting SSA"*|*"Running prop"*|*VERIFICATION*|*"SAT checker"*) echo "[$(( $(date +%s) - start ))s] $l";; esac; done
