// ll2c: LLVM-14 IR module -> one C translation unit for cbmc (and gcc, for differential validation).
//
//   ll2c in.ll -o out.c [--ub] [--frozen] [--entry name]...
//
// Every IR instruction is mapped 1:1 onto a C statement over C types that mirror the IR
// types (typed pointers, named/packed structs, arrays/vectors wrapped in structs), so that
// cbmc sees structured objects.  See /verif/DESIGN.md section 1.2 and appendix A.
#include <llvm/IR/LLVMContext.h>
#include <llvm/IR/Module.h>
#include <llvm/IR/Instructions.h>
#include <llvm/IR/IntrinsicInst.h>
#include <llvm/IR/Constants.h>
#include <llvm/IR/DataLayout.h>
#include <llvm/IR/Operator.h>
#include <llvm/IR/CFG.h>
#include <llvm/IR/DebugInfoMetadata.h>
#include <llvm/IR/Dominators.h>
#include <llvm/Analysis/LoopInfo.h>
#include <llvm/IRReader/IRReader.h>
#include <llvm/Support/SourceMgr.h>
#include <llvm/Support/raw_ostream.h>
#include <llvm/ADT/APFloat.h>
#include <llvm/ADT/SmallString.h>
#include <map>
#include <set>
#include <string>
#include <vector>
#include <sstream>
#include <fstream>
#include <cstdio>
#include <cstdlib>

using namespace llvm;
using std::string;

static bool optUB = false, optFrozen = false;
static int optDyadic = -1;     // >= 0: exact-dyadic lowering, float = int32 holding value * 2^K (DESIGN 1.5)
static const DataLayout *DL;
static std::ostringstream out;
static std::set<string> libcFns = {
  "malloc","calloc","realloc","free","memcpy","memmove","memset","memcmp","strlen","strchr","strcmp","strncmp",
  "abort","qsort","fopen","fclose","fseek","ftell","fread","exit"
};

[[noreturn]] static void die(const string &m) { fprintf(stderr, "ll2c: %s\n", m.c_str()); exit(2); }

static string sanitize(StringRef s) {
  string r;
  for (char c : s) r += (isalnum((unsigned char)c) || c == '_') ? c : '_';
  if (r.empty() || isdigit((unsigned char)r[0])) r = "_" + r;
  return r;
}

// ---------------------------------------------------------------- types
static std::map<Type*, string> typeName;      // struct-like and function types -> C name
static std::vector<Type*> aggOrder;           // definition order (by-value deps first)
static std::set<Type*> aggDone, aggVisiting;
static std::set<string> usedNames;
static unsigned anonCtr = 0;

static string uniq(string base) {
  string n = base; unsigned k = 0;
  while (usedNames.count(n)) n = base + "_" + std::to_string(++k);
  usedNames.insert(n); return n;
}

static unsigned stdWidth(unsigned w) { return w <= 8 ? 8 : w <= 16 ? 16 : w <= 32 ? 32 : w <= 64 ? 64 : 128; }
static bool isStd(unsigned w) { return w == 8 || w == 16 || w == 32 || w == 64 || w == 128; }
static string uintTy(unsigned w) { unsigned s = stdWidth(w); return s == 128 ? "unsigned __int128" : "uint" + std::to_string(s) + "_t"; }
static string sintTy(unsigned w) { unsigned s = stdWidth(w); return s == 128 ? "__int128" : "int" + std::to_string(s) + "_t"; }

static string ctype(Type *t);

static void registerType(Type *t) {
  if (typeName.count(t)) return;
  if (auto *st = dyn_cast<StructType>(t)) {
    string n = st->hasName() ? "s_" + sanitize(st->getName()) : "s_lit" + std::to_string(anonCtr++);
    typeName[t] = "struct " + uniq(n);
    if (!st->isOpaque()) for (Type *e : st->elements()) registerType(e);
  } else if (auto *at = dyn_cast<ArrayType>(t)) {
    registerType(at->getElementType());
    typeName[t] = "struct " + uniq("arr" + std::to_string(at->getNumElements()) + "_" + std::to_string(anonCtr++));
  } else if (auto *vt = dyn_cast<FixedVectorType>(t)) {
    registerType(vt->getElementType());
    typeName[t] = "struct " + uniq("vec" + std::to_string(vt->getNumElements()) + "_" + std::to_string(anonCtr++));
  } else if (auto *ft = dyn_cast<FunctionType>(t)) {
    typeName[t] = uniq("fnty_" + std::to_string(anonCtr++));
    registerType(ft->getReturnType());
    for (Type *p : ft->params()) registerType(p);
  } else if (auto *pt = dyn_cast<PointerType>(t)) {
    registerType(pt->getPointerElementType());
  }
}

static string ctype(Type *t) {
  if (t->isVoidTy()) return "void";
  if (t->isIntegerTy()) { if (t->getIntegerBitWidth() > 128) die("int too wide"); return uintTy(t->getIntegerBitWidth()); }
  if (t->isFloatTy()) return optDyadic >= 0 ? "ll_fx" : "float";
  if (t->isDoubleTy()) { if (optDyadic >= 0) return "ll_fx_double_unsupported"; return "double"; }
  if (auto *pt = dyn_cast<PointerType>(t)) {
    Type *e = pt->getPointerElementType();
    if (e->isVoidTy()) return "uint8_t*";
    return ctype(e) + "*";
  }
  if (t->isStructTy() || t->isArrayTy() || isa<FixedVectorType>(t) || t->isFunctionTy()) {
    registerType(t);
    return typeName[t];
  }
  if (t->isLabelTy() || t->isMetadataTy()) return "void";
  string s; raw_string_ostream os(s); t->print(os); die("unsupported type " + os.str());
}

static void orderAgg(Type *t) {
  if (auto *pt = dyn_cast<PointerType>(t)) { (void)pt; return; }
  if (!(t->isStructTy() || t->isArrayTy() || isa<FixedVectorType>(t))) return;
  if (aggDone.count(t)) return;
  if (aggVisiting.count(t)) die("recursive by-value type");
  aggVisiting.insert(t);
  if (auto *st = dyn_cast<StructType>(t)) { if (!st->isOpaque()) for (Type *e : st->elements()) orderAgg(e); }
  else if (auto *at = dyn_cast<ArrayType>(t)) orderAgg(at->getElementType());
  else if (auto *vt = dyn_cast<FixedVectorType>(t)) orderAgg(vt->getElementType());
  aggVisiting.erase(t); aggDone.insert(t); aggOrder.push_back(t);
}

static void emitTypeDefs() {
  // snapshot: typeName may not grow after this point
  std::vector<Type*> all; for (auto &kv : typeName) all.push_back(kv.first);
  for (Type *t : all) if (!t->isFunctionTy()) out << typeName[t] << ";\n";
  for (Type *t : all) if (auto *ft = dyn_cast<FunctionType>(t)) {
    out << "typedef " << ctype(ft->getReturnType()) << " " << typeName[t] << "(";
    bool first = true;
    for (Type *p : ft->params()) { if (!first) out << ", "; first = false; out << ctype(p); }
    if (ft->getNumParams() == 0) out << "void";
    out << ");\n";
  }
  for (Type *t : all) orderAgg(t);
  for (Type *t : aggOrder) {
    if (auto *st = dyn_cast<StructType>(t)) {
      if (st->isOpaque()) continue;
      out << typeName[t] << " {";
      unsigned i = 0;
      for (Type *e : st->elements()) out << " " << ctype(e) << " f" << i++ << ";";
      if (st->getNumElements() == 0) out << " char _empty[0];";
      out << " }" << (st->isPacked() ? " __attribute__((packed))" : "") << ";\n";
      const StructLayout *sl = DL->getStructLayout(st);
      out << "_Static_assert(sizeof(" << typeName[t] << ") == " << sl->getSizeInBytes() << ", \"size\");\n";
      for (unsigned k = 0; k < st->getNumElements(); ++k)
        out << "_Static_assert(__builtin_offsetof(" << typeName[t] << ", f" << k << ") == " << sl->getElementOffset(k) << ", \"off\");\n";
    } else if (auto *at = dyn_cast<ArrayType>(t)) {
      out << typeName[t] << " { " << ctype(at->getElementType()) << " a[" << at->getNumElements() << "]; };\n";
    } else if (auto *vt = dyn_cast<FixedVectorType>(t)) {
      out << typeName[t] << " { " << ctype(vt->getElementType()) << " a[" << vt->getNumElements() << "]; };\n";
    }
  }
}

// ---------------------------------------------------------------- names
static std::map<const GlobalValue*, string> gvName;
static string gname(const GlobalValue *g) {
  auto it = gvName.find(g); if (it != gvName.end()) return it->second;
  string n;
  if (g->isDeclaration() && isa<Function>(g)) n = g->getName().str();   // externals keep their names
  else n = sanitize(g->getName());
  if (!(g->isDeclaration() && isa<Function>(g))) n = uniq(n); else usedNames.insert(n);
  return gvName[g] = n;
}

struct FnCtx {
  std::map<const Value*, string> names;
  std::map<const BasicBlock*, unsigned> bbId;
  std::vector<std::pair<string,string>> locals; // (type, name)
  unsigned ctr = 0;
  std::ostringstream body;
  unsigned undefCtr = 0;
};
static FnCtx *F = nullptr;
static std::map<const BasicBlock*, unsigned> blockAddrId;   // for blockaddress / indirectbr
static unsigned blockAddrCtr = 1;

static string intLit(const APInt &v) {
  unsigned w = v.getBitWidth();
  if (w > 64) {
    // 128-bit: build from halves
    uint64_t lo = v.getLoBits(64).getZExtValue(), hi = v.lshr(64).getLoBits(64).getZExtValue();
    return "((((unsigned __int128)UINT64_C(" + std::to_string(hi) + ")) << 64) | UINT64_C(" + std::to_string(lo) + "))";
  }
  uint64_t z = v.getZExtValue();
  if (stdWidth(w) == 64) return "UINT64_C(" + std::to_string(z) + ")";
  return "((" + uintTy(w) + ")" + std::to_string(z) + "u)";
}

static string fpLit(const APFloat &f, bool isFloat) {
  if (optDyadic >= 0) {
    if (f.isNaN() || f.isInfinity()) return "LL_FX_INEXACT(0)";
    double d = isFloat ? (double)f.convertToFloat() : f.convertToDouble();
    double scaled = d * (double)(1ll << optDyadic);
    if (scaled != (double)(long long)scaled || scaled > 2147483647.0 || scaled < -2147483648.0) {
      long long r = (long long)scaled; if (r > 2147483647ll) r = 2147483647ll; if (r < -2147483647ll) r = -2147483647ll;
      return "LL_FX_INEXACT(" + std::to_string(r) + ")";       // constant not on the grid: an obligation if the value is ever used
    }
    return "((ll_fx)" + std::to_string((long long)scaled) + ")";
  }
  if (f.isNaN()) return isFloat ? "__builtin_nanf(\"\")" : "__builtin_nan(\"\")";
  if (f.isInfinity()) return string(f.isNegative() ? "(-" : "(") + (isFloat ? "__builtin_inff())" : "__builtin_inf())");
  SmallString<64> s;
  char buf[64];
  if (isFloat) { snprintf(buf, sizeof buf, "%af", (double)f.convertToFloat()); }
  else { snprintf(buf, sizeof buf, "%a", f.convertToDouble()); }
  return string("(") + buf + ")";
}

static string val(const Value *v);
static string constExpr(const Constant *c, bool inGlobalInit);

static string sx(const string &e, unsigned w) {  // signed view of a zero-extended iW
  if (isStd(w)) return "((" + sintTy(w) + ")(" + e + "))";
  unsigned s = stdWidth(w);
  return "((" + sintTy(w) + ")(((" + sintTy(w) + ")((" + uintTy(w) + ")(" + e + ") << " + std::to_string(s - w) + ")) >> " + std::to_string(s - w) + "))";
}
static string mask(const string &e, unsigned w) {
  if (isStd(w)) return "((" + uintTy(w) + ")(" + e + "))";
  uint64_t m = (w >= 64) ? ~0ull : ((1ull << w) - 1);
  return "((" + uintTy(w) + ")((" + e + ") & UINT64_C(" + std::to_string(m) + ")))";
}
static string opTy(unsigned w) { return w <= 32 ? "uint32_t" : (w <= 64 ? "uint64_t" : "unsigned __int128"); }
static string sopTy(unsigned w) { return w <= 32 ? "int32_t" : (w <= 64 ? "int64_t" : "__int128"); }

// GEP expression text given base string and indices (as strings, already sign-extended to int64)
static string gepExpr(Type *srcElemTy, const string &base, ArrayRef<const Value*> idx, std::function<string(const Value*)> vs) {
  string e;
  auto idxStr = [&](const Value *i) -> string {
    if (auto *ci = dyn_cast<ConstantInt>(i)) return std::to_string(ci->getSExtValue());
    unsigned w = i->getType()->getIntegerBitWidth();
    return "(int64_t)" + sx(vs(i), w);
  };
  // first index
  const Value *i0 = idx[0];
  if (auto *ci = dyn_cast<ConstantInt>(i0)) {
    if (ci->isZero()) e = "(*" + base + ")"; else e = "(" + base + ")[" + std::to_string(ci->getSExtValue()) + "]";
  } else e = "(" + base + ")[" + idxStr(i0) + "]";
  Type *cur = srcElemTy;
  for (unsigned k = 1; k < idx.size(); ++k) {
    if (auto *st = dyn_cast<StructType>(cur)) {
      unsigned fi = cast<ConstantInt>(idx[k])->getZExtValue();
      e += ".f" + std::to_string(fi); cur = st->getElementType(fi);
    } else if (auto *at = dyn_cast<ArrayType>(cur)) {
      e += ".a[" + idxStr(idx[k]) + "]"; cur = at->getElementType();
    } else if (auto *vt = dyn_cast<FixedVectorType>(cur)) {
      e += ".a[" + idxStr(idx[k]) + "]"; cur = vt->getElementType();
    } else die("gep into non-aggregate");
  }
  return "(&" + e + ")";
}

static string castTo(Type *t, const string &e) { return "((" + ctype(t) + ")(" + e + "))"; }

static string cString(const ConstantDataSequential *cds) {
  string s = "\"";
  StringRef r = cds->getRawDataValues();
  for (size_t i = 0; i + 1 < r.size() || (i < r.size() && r[i] != 0); ++i) {
    unsigned char c = r[i];
    if (c == '"' || c == '\\') { s += '\\'; s += c; }
    else if (c >= 32 && c < 127) s += c;
    else { char b[8]; snprintf(b, sizeof b, "\\%03o", c); s += b; }
  }
  return s + "\"";
}

static string constAggInit(const Constant *c);   // brace initialiser

static string constExpr(const Constant *c, bool inGlobalInit) {
  Type *t = c->getType();
  if (auto *ci = dyn_cast<ConstantInt>(c)) return intLit(ci->getValue());
  if (auto *cf = dyn_cast<ConstantFP>(c)) return fpLit(cf->getValueAPF(), t->isFloatTy());
  if (isa<ConstantPointerNull>(c)) return "((" + ctype(t) + ")0)";
  if (isa<UndefValue>(c)) {
    if (inGlobalInit || !F) {
      if (t->isIntegerTy() || t->isFloatingPointTy() || t->isPointerTy()) return "((" + ctype(t) + ")0)";
      return "(" + ctype(t) + "){0}";
    }
    string n = "undef" + std::to_string(F->undefCtr++);
    F->locals.push_back({ctype(t), n});
    return n;
  }
  if (auto *gv = dyn_cast<GlobalVariable>(c)) return "(&" + gname(gv) + ")";
  if (auto *fn = dyn_cast<Function>(c)) {
    if (libcFns.count(fn->getName().str()) || fn->getName().startswith("__CPROVER"))
      return "((" + ctype(t) + ")" + gname(fn) + ")";
    return "(&" + gname(fn) + ")";
  }
  if (auto *ga = dyn_cast<GlobalAlias>(c)) return constExpr(ga->getAliasee(), inGlobalInit);
  if (auto *ba = dyn_cast<BlockAddress>(c)) {
    const BasicBlock *bb = ba->getBasicBlock();
    if (!blockAddrId.count(bb)) blockAddrId[bb] = blockAddrCtr++;
    return "((uint8_t*)(uintptr_t)" + std::to_string(blockAddrId[bb]) + ")";
  }
  if (auto *ce = dyn_cast<ConstantExpr>(c)) {
    auto vs = [&](const Value *v) { return constExpr(cast<Constant>(v), inGlobalInit); };
    switch (ce->getOpcode()) {
      case Instruction::BitCast: case Instruction::AddrSpaceCast:
        if (t->isPointerTy()) return castTo(t, vs(ce->getOperand(0)));
        die("non-pointer constant bitcast");
      case Instruction::PtrToInt: return "((" + ctype(t) + ")(uintptr_t)(" + vs(ce->getOperand(0)) + "))";
      case Instruction::IntToPtr: return "((" + ctype(t) + ")(uintptr_t)(" + vs(ce->getOperand(0)) + "))";
      case Instruction::GetElementPtr: {
        auto *go = cast<GEPOperator>(ce);
        std::vector<const Value*> idx; for (auto it = go->idx_begin(); it != go->idx_end(); ++it) idx.push_back(*it);
        return gepExpr(go->getSourceElementType(), vs(go->getPointerOperand()), idx, vs);
      }
      case Instruction::Sub: case Instruction::Add: {
        unsigned w = t->getIntegerBitWidth();
        return mask("(" + opTy(w) + ")" + vs(ce->getOperand(0)) + (ce->getOpcode() == Instruction::Sub ? " - " : " + ") + "(" + opTy(w) + ")" + vs(ce->getOperand(1)), w);
      }
      case Instruction::Trunc: case Instruction::ZExt: return mask(vs(ce->getOperand(0)), t->getIntegerBitWidth());
      default: { string s; raw_string_ostream os(s); ce->print(os); die("unsupported constexpr " + os.str()); }
    }
  }
  if (isa<ConstantAggregateZero>(c) || isa<ConstantStruct>(c) || isa<ConstantArray>(c) || isa<ConstantDataSequential>(c) || isa<ConstantVector>(c)) {
    if (inGlobalInit) return constAggInit(c);
    return "((" + ctype(t) + ")" + constAggInit(c) + ")";
  }
  string s; raw_string_ostream os(s); c->print(os); die("unsupported constant " + os.str());
}

static string constAggInit(const Constant *c) {
  Type *t = c->getType();
  if (!(t->isStructTy() || t->isArrayTy() || isa<FixedVectorType>(t))) return constExpr(c, true);
  if (isa<ConstantAggregateZero>(c) || isa<UndefValue>(c)) return "{0}";
  string s = "{";
  bool wrap = !t->isStructTy();
  if (wrap) s += "{";
  unsigned n = 0;
  if (auto *st = dyn_cast<StructType>(t)) n = st->getNumElements();
  else if (auto *at = dyn_cast<ArrayType>(t)) n = at->getNumElements();
  else n = cast<FixedVectorType>(t)->getNumElements();
  for (unsigned i = 0; i < n; ++i) {
    if (i) s += ", ";
    s += constAggInit(c->getAggregateElement(i));
  }
  if (n == 0) s += "0";
  if (wrap) s += "}";
  return s + "}";
}

static string val(const Value *v) {
  if (auto *c = dyn_cast<Constant>(v)) return constExpr(c, false);
  auto it = F->names.find(v);
  if (it == F->names.end()) { string s; raw_string_ostream os(s); v->print(os); die("unnamed value " + os.str()); }
  return it->second;
}

// ---------------------------------------------------------------- instructions
static void ub(const string &cond, const string &msg) {
  if (optUB) F->body << "  LL_UB(" << cond << ", \"" << msg << "\");\n";
}

static string fcmpExpr(FCmpInst::Predicate p, const string &a, const string &b) {
  string ord = "((" + a + ")==(" + a + ") && (" + b + ")==(" + b + "))";
  string uno = "(!" + ord + ")";
  switch (p) {
    case FCmpInst::FCMP_FALSE: return "0";
    case FCmpInst::FCMP_TRUE: return "1";
    case FCmpInst::FCMP_OEQ: return "((" + a + ") == (" + b + "))";
    case FCmpInst::FCMP_OGT: return "((" + a + ") > (" + b + "))";
    case FCmpInst::FCMP_OGE: return "((" + a + ") >= (" + b + "))";
    case FCmpInst::FCMP_OLT: return "((" + a + ") < (" + b + "))";
    case FCmpInst::FCMP_OLE: return "((" + a + ") <= (" + b + "))";
    case FCmpInst::FCMP_ONE: return "(((" + a + ") < (" + b + ")) || ((" + a + ") > (" + b + ")))";
    case FCmpInst::FCMP_ORD: return ord;
    case FCmpInst::FCMP_UNO: return uno;
    case FCmpInst::FCMP_UEQ: return "(!(((" + a + ") < (" + b + ")) || ((" + a + ") > (" + b + "))))";
    case FCmpInst::FCMP_UGT: return "(!((" + a + ") <= (" + b + ")))";
    case FCmpInst::FCMP_UGE: return "(!((" + a + ") < (" + b + ")))";
    case FCmpInst::FCMP_ULT: return "(!((" + a + ") >= (" + b + ")))";
    case FCmpInst::FCMP_ULE: return "(!((" + a + ") > (" + b + ")))";
    case FCmpInst::FCMP_UNE: return "((" + a + ") != (" + b + "))";
    default: die("fcmp pred");
  }
}

static void emitPhiCopies(const BasicBlock *from, const BasicBlock *to, const string &ind) {
  std::vector<const PHINode*> phis;
  for (const PHINode &p : to->phis()) phis.push_back(&p);
  if (phis.empty()) return;
  for (auto *p : phis) F->body << ind << F->names[p] << "_in = " << val(p->getIncomingValueForBlock(from)) << ";\n";
  for (auto *p : phis) F->body << ind << F->names[p] << " = " << F->names[p] << "_in;\n";
}

static LoopInfo *curLI = nullptr;
static void emitGoto(const BasicBlock *from, const BasicBlock *to, const string &ind) {
  emitPhiCopies(from, to, ind);
  F->body << ind << "goto bb" << F->bbId[to] << ";";
  if (F->bbId[to] <= F->bbId[from]) {
    // backward goto = one cbmc loop; tag it with the source function the loop comes from (inlined scope) for --unwindset resolution
    string sf = "?", file = "?"; unsigned line = 0;
    DebugLoc dl = from->getTerminator()->getDebugLoc();
    if (!dl) for (const Instruction &ii : *from) if (ii.getDebugLoc()) dl = ii.getDebugLoc();
    if (!dl) for (const Instruction &ii : *to) if (ii.getDebugLoc()) { dl = ii.getDebugLoc(); break; }
    if (dl) {
      if (auto *sc = dyn_cast_or_null<DILocalScope>(dl.getScope())) {
        if (auto *sp = sc->getSubprogram()) sf = sp->getName().str();
        file = sc->getFilename().str();
      }
      line = dl.getLine();
    }
    size_t p = file.find_last_of('/'); if (p != string::npos) file = file.substr(p + 1);
    unsigned depth = curLI ? curLI->getLoopDepth(to) : 0;
    F->body << " /*LOOP sf=" << sanitize(sf) << " file=" << file << " line=" << line << " depth=" << depth << "*/";
  }
  F->body << "\n";
}

static bool curFrozen = false;

static void emitCall(const CallBase *ci) {
  const Value *callee = ci->getCalledOperand()->stripPointerCasts();
  const Function *fn = dyn_cast<Function>(callee);
  Type *rt = ci->getType();
  string lhs = rt->isVoidTy() ? "" : (F->names[ci] + " = ");
  auto arg = [&](unsigned i) { return val(ci->getArgOperand(i)); };
  std::ostringstream &b = F->body;
  if (fn && fn->isIntrinsic()) {
    StringRef n = fn->getName();
    if (n.startswith("llvm.lifetime") || n.startswith("llvm.dbg") || n.startswith("llvm.experimental.noalias") || n.startswith("llvm.assume") || n.startswith("llvm.invariant")) return;
    if (n.startswith("llvm.memcpy") || n.startswith("llvm.memmove") || n.startswith("llvm.memset")) {
      bool isSet = n.startswith("llvm.memset");
      if (curFrozen) b << "  FROZEN_CHECK(" << arg(0) << ");\n";
      if (!isSet && !isa<ConstantInt>(ci->getArgOperand(2))) {
        // symbolic-length copy between arrays of one struct type (Vector<T>::insert/erase): copy element-wise so that cbmc keeps
        // typed objects; byte-level memmove of symbolic length on a struct array gives no verdict.  Falls back to memmove when the
        // length is not a multiple of the element size.
        Type *dt = ci->getArgOperand(0)->stripPointerCasts()->getType()->getPointerElementType();
        Type *st = ci->getArgOperand(1)->stripPointerCasts()->getType()->getPointerElementType();
        if (dt == st && dt->isStructTy() && dt->isSized() && DL->getTypeAllocSize(dt) > 1) {
          b << "  LL_TYPED_MOVE(" << ctype(dt) << ", " << arg(0) << ", " << arg(1) << ", (size_t)" << arg(2) << ");\n";
          return;
        }
      }
      if (isSet) b << "  memset((void*)" << arg(0) << ", (int)" << arg(1) << ", (size_t)" << arg(2) << ");\n";
      else b << "  " << (n.startswith("llvm.memcpy") ? "memcpy" : "memmove") << "((void*)" << arg(0) << ", (const void*)" << arg(1) << ", (size_t)" << arg(2) << ");\n";
      return;
    }
    unsigned w = rt->isIntegerTy() ? rt->getIntegerBitWidth() : 0;
    if (n.startswith("llvm.umax")) { b << "  " << lhs << "(" << arg(0) << " > " << arg(1) << " ? " << arg(0) << " : " << arg(1) << ");\n"; return; }
    if (n.startswith("llvm.umin")) { b << "  " << lhs << "(" << arg(0) << " < " << arg(1) << " ? " << arg(0) << " : " << arg(1) << ");\n"; return; }
    if (n.startswith("llvm.smax")) { b << "  " << lhs << "(" << sx(arg(0),w) << " > " << sx(arg(1),w) << " ? " << arg(0) << " : " << arg(1) << ");\n"; return; }
    if (n.startswith("llvm.smin")) { b << "  " << lhs << "(" << sx(arg(0),w) << " < " << sx(arg(1),w) << " ? " << arg(0) << " : " << arg(1) << ");\n"; return; }
    if (n.startswith("llvm.abs")) { b << "  " << lhs << mask("(" + sx(arg(0),w) + " < 0 ? (" + opTy(w) + ")0 - (" + opTy(w) + ")" + arg(0) + " : (" + opTy(w) + ")" + arg(0) + ")", w) << ";\n"; return; }
    if (optDyadic >= 0 && n.startswith("llvm.fabs")) { b << "  " << lhs << "((int32_t)" << arg(0) << " < 0 ? ll_fx_sub((ll_fx)0, " << arg(0) << ") : " << arg(0) << ");\n"; return; }
    if (optDyadic >= 0 && (n.startswith("llvm.maxnum") || n.startswith("llvm.minnum"))) { b << "  " << lhs << "((int32_t)" << arg(0) << (n.startswith("llvm.maxnum") ? " > " : " < ") << "(int32_t)" << arg(1) << " ? " << arg(0) << " : " << arg(1) << ");\n"; return; }
    if (optDyadic >= 0 && n.startswith("llvm.fmuladd")) { b << "  " << lhs << "ll_fx_add(ll_fx_mul(" << arg(0) << ", " << arg(1) << "), " << arg(2) << ");\n"; return; }
    if (optDyadic >= 0 && (n.startswith("llvm.floor") || n.startswith("llvm.sqrt"))) { b << "  LL_FX_UNSUPPORTED(\"floor/sqrt\"); " << lhs << "0;\n"; return; }
    if (n.startswith("llvm.fabs")) { b << "  " << lhs << (rt->isFloatTy() ? "LL_FABSF(" : "LL_FABS(") << arg(0) << ");\n"; return; }
    if (n.startswith("llvm.fmuladd")) { b << "  " << lhs << "(" << arg(0) << " * " << arg(1) << " + " << arg(2) << ");\n"; return; }
    if (n.startswith("llvm.bswap")) {
      if (w == 16) b << "  " << lhs << "(uint16_t)((" << arg(0) << " << 8) | (" << arg(0) << " >> 8));\n";
      else if (w == 32) b << "  " << lhs << "ll_bswap32(" << arg(0) << ");\n";
      else if (w == 64) b << "  " << lhs << "ll_bswap64(" << arg(0) << ");\n";
      else die("bswap width");
      return;
    }
    if (n.startswith("llvm.fshl")) {
      unsigned s = w; string sh = "((" + arg(2) + ") % " + std::to_string(s) + ")";
      b << "  " << lhs << mask("(" + sh + " == 0) ? (" + opTy(w) + ")" + arg(0) + " : (((" + opTy(w) + ")" + arg(0) + " << " + sh + ") | ((" + opTy(w) + ")" + arg(1) + " >> (" + std::to_string(s) + " - " + sh + ")))", w) << ";\n"; return;
    }
    if (n.startswith("llvm.fshr")) {
      unsigned s = w; string sh = "((" + arg(2) + ") % " + std::to_string(s) + ")";
      b << "  " << lhs << mask("(" + sh + " == 0) ? (" + opTy(w) + ")" + arg(1) + " : (((" + opTy(w) + ")" + arg(1) + " >> " + sh + ") | ((" + opTy(w) + ")" + arg(0) + " << (" + std::to_string(s) + " - " + sh + ")))", w) << ";\n"; return;
    }
    if (n.startswith("llvm.ctpop")) { b << "  " << lhs << "(" << ctype(rt) << ")ll_popcount64((uint64_t)" << arg(0) << ");\n"; return; }
    if (n.startswith("llvm.ctlz")) { b << "  " << lhs << "(" << ctype(rt) << ")ll_ctlz((uint64_t)" << arg(0) << ", " << w << ");\n"; return; }
    if (n.startswith("llvm.cttz")) { b << "  " << lhs << "(" << ctype(rt) << ")ll_cttz((uint64_t)" << arg(0) << ", " << w << ");\n"; return; }
    if (n.startswith("llvm.umul.with.overflow") || n.startswith("llvm.uadd.with.overflow") || n.startswith("llvm.usub.with.overflow")) {
      auto *st = cast<StructType>(rt); unsigned ew = st->getElementType(0)->getIntegerBitWidth();
      string tn = F->names[ci];
      // plain arithmetic instead of __builtin_*_overflow: cbmc does not fold the builtin's result to a constant, and these results size allocations
      string a0 = arg(0), a1 = arg(1);
      if (n.startswith("llvm.umul")) {
        if (ew <= 32) b << "  { uint64_t p_ = (uint64_t)" << a0 << " * (uint64_t)" << a1 << "; " << tn << ".f0 = (" << uintTy(ew) << ")p_; " << tn << ".f1 = (uint8_t)((p_ >> " << ew << ") != 0); }\n";
        else b << "  { unsigned __int128 p_ = (unsigned __int128)" << a0 << " * (unsigned __int128)" << a1 << "; " << tn << ".f0 = (uint64_t)p_; " << tn << ".f1 = (uint8_t)((p_ >> 64) != 0); }\n";
      } else if (n.startswith("llvm.uadd")) {
        b << "  { " << uintTy(ew) << " r_ = (" << uintTy(ew) << ")(" << a0 << " + " << a1 << "); " << tn << ".f0 = r_; " << tn << ".f1 = (uint8_t)(r_ < " << a0 << "); }\n";
      } else {
        b << "  { " << tn << ".f0 = (" << uintTy(ew) << ")(" << a0 << " - " << a1 << "); " << tn << ".f1 = (uint8_t)(" << a0 << " < " << a1 << "); }\n";
      }
      return;
    }
    if (n.startswith("llvm.trap")) { b << "  abort();\n"; return; }
    if (n.startswith("llvm.floor")) { b << "  " << lhs << (rt->isFloatTy() ? "floorf(" : "floor(") << arg(0) << ");\n"; return; }
    if (n.startswith("llvm.sqrt")) { b << "  " << lhs << (rt->isFloatTy() ? "sqrtf(" : "sqrt(") << arg(0) << ");\n"; return; }
    if (n.startswith("llvm.maxnum")) { b << "  " << lhs << (rt->isFloatTy() ? "fmaxf(" : "fmax(") << arg(0) << ", " << arg(1) << ");\n"; return; }
    if (n.startswith("llvm.minnum")) { b << "  " << lhs << (rt->isFloatTy() ? "fminf(" : "fmin(") << arg(0) << ", " << arg(1) << ");\n"; return; }
    die("unsupported intrinsic " + n.str());
  }
  if (fn && fn->isDeclaration() && fn->getName().contains("vh_typed_alloc")) {
    Type *et = rt->getPointerElementType();
    b << "  " << lhs << "(" << ctype(rt) << ")malloc(sizeof(" << ctype(et) << ") * " << arg(1) << ");\n";
    return;
  }
  if (fn && fn->isDeclaration()) {
    string n = fn->getName().str();
    if (n == "__CPROVER_assert" || n == "__CPROVER_assume" || n == "VERIF_assert" || n == "__CPROVER_cover") {
      b << "  " << n << "(" << arg(0);
      if (ci->arg_size() > 1) {
        // message must be a string literal
        const Value *m = ci->getArgOperand(1)->stripPointerCasts();
        string lit = "\"assertion\"";
        if (auto *gv = dyn_cast<GlobalVariable>(m)) if (gv->hasInitializer()) if (auto *cds = dyn_cast<ConstantDataSequential>(gv->getInitializer())) lit = cString(cds);
        b << ", " << lit;
      } else if (n == "__CPROVER_assert") b << ", \"assertion\"";
      b << ");\n";
      return;
    }
    if (libcFns.count(n) || StringRef(n).startswith("__CPROVER")) {
      if (optFrozen && (n == "free" || n == "realloc")) b << "  FROZEN_CHECK(" << arg(0) << ");\n";
      // allocations of a compile-time constant size never go through the LL_MEM_CASES split (they keep their element type)
      bool constAlloc = false;
      if (n == "malloc" && ci->arg_size() == 1) constAlloc = isa<ConstantInt>(ci->getArgOperand(0));
      if (n == "calloc" && ci->arg_size() == 2) constAlloc = isa<ConstantInt>(ci->getArgOperand(0)) && isa<ConstantInt>(ci->getArgOperand(1));
      b << "  " << (rt->isVoidTy() ? "" : lhs + "(" + ctype(rt) + ")") << (libcFns.count(n) ? "LL_" : "") << n << (constAlloc ? "_const" : "") << "(";
      // allocation of a constant number of bytes that is immediately viewed as T*: say sizeof(T)*k so that cbmc types the
      // object as T[k] instead of a byte array (typed field access instead of byte_extract on every load/store)
      int szArg = (n == "malloc") ? 0 : (n == "calloc" ? 1 : (n == "realloc" ? 1 : -1));
      string typedSize;
      if (szArg >= 0 && (unsigned)szArg < ci->arg_size()) if (auto *csz = dyn_cast<ConstantInt>(ci->getArgOperand(szArg))) {
        uint64_t bytes = csz->getZExtValue();
        if (n == "calloc") if (auto *cn = dyn_cast<ConstantInt>(ci->getArgOperand(0))) bytes *= cn->getZExtValue(); else bytes = 0;
        uint64_t bestEs = 1;
        for (const User *u : ci->users()) if (auto *bc = dyn_cast<BitCastInst>(u)) {
          Type *et = bc->getType()->getPointerElementType();
          if (!et->isSized() || et->isFunctionTy()) continue;
          uint64_t es = DL->getTypeAllocSize(et);
          if (es > bestEs && bytes >= es && bytes % es == 0) { bestEs = es; typedSize = "sizeof(" + ctype(et) + ") * " + std::to_string(bytes / es); }
        }
      }
      for (unsigned i = 0; i < ci->arg_size(); ++i) {
        if (i) b << ", ";
        if (!typedSize.empty() && n == "calloc") { b << (i == 0 ? "1" : typedSize); continue; }
        if (!typedSize.empty() && (int)i == szArg) { b << typedSize; continue; }
        Type *at = ci->getArgOperand(i)->getType();
        if (at->isPointerTy()) b << "(void*)" << arg(i); else b << arg(i);
      }
      b << ");\n";
      return;
    }
  }
  // ordinary call
  FunctionType *ft = ci->getFunctionType();
  string calleeStr;
  if (fn && fn->getFunctionType() == ft) calleeStr = gname(fn);
  else calleeStr = "((" + ctype(ft) + "*)" + val(ci->getCalledOperand()) + ")";
  b << "  " << lhs << calleeStr << "(";
  for (unsigned i = 0; i < ci->arg_size(); ++i) { if (i) b << ", "; b << arg(i); }
  b << ");\n";
}

static void emitInst(const Instruction &I) {
  std::ostringstream &b = F->body;
  Type *t = I.getType();
  string lhs = t->isVoidTy() ? "" : "  " + F->names[&I] + " = ";
  auto op = [&](unsigned i) { return val(I.getOperand(i)); };
  switch (I.getOpcode()) {
    case Instruction::Add: case Instruction::Sub: case Instruction::Mul:
    case Instruction::And: case Instruction::Or: case Instruction::Xor: {
      if (!t->isIntegerTy()) die("vector int op (run scalarizer)");
      unsigned w = t->getIntegerBitWidth();
      const char *o = I.getOpcode() == Instruction::Add ? "+" : I.getOpcode() == Instruction::Sub ? "-" : I.getOpcode() == Instruction::Mul ? "*" :
                      I.getOpcode() == Instruction::And ? "&" : I.getOpcode() == Instruction::Or ? "|" : "^";
      if (I.getOpcode() == Instruction::Sub && w == 64) {
        // pointer difference written as ptrtoint-sub: keep it a pointer difference so that cbmc folds same-object differences to constants
        auto *pa = dyn_cast<PtrToIntOperator>(I.getOperand(0)), *pb = dyn_cast<PtrToIntOperator>(I.getOperand(1));
        if (pa && pb) { b << lhs << "LL_PTR_DIFF(" << val(pa->getPointerOperand()) << ", " << val(pb->getPointerOperand()) << ");\n"; break; }
      }
      if (auto *obo = dyn_cast<OverflowingBinaryOperator>(&I)) {
        const char *nm = I.getOpcode() == Instruction::Add ? "add" : I.getOpcode() == Instruction::Sub ? "sub" : "mul";
        if (obo->hasNoSignedWrap() && isStd(w) && w <= 64)
          ub(string("!LL_OVF_S_") + nm + "(" + sx(op(0), w) + ", " + sx(op(1), w) + ")", string("nsw ") + nm);
        if (obo->hasNoUnsignedWrap() && isStd(w) && w <= 64)
          ub(string("!LL_OVF_U_") + nm + "(" + op(0) + ", " + op(1) + ")", string("nuw ") + nm);
      }
      b << lhs << mask("(" + opTy(w) + ")" + op(0) + " " + o + " (" + opTy(w) + ")" + op(1), w) << ";\n";
      break;
    }
    case Instruction::UDiv: case Instruction::URem: {
      unsigned w = t->getIntegerBitWidth();
      ub(op(1) + " != 0", "division by zero");
      b << lhs << mask("(" + opTy(w) + ")" + op(0) + (I.getOpcode() == Instruction::UDiv ? " / " : " % ") + "(" + opTy(w) + ")" + op(1), w) << ";\n";
      break;
    }
    case Instruction::SDiv: case Instruction::SRem: {
      unsigned w = t->getIntegerBitWidth();
      ub(op(1) + " != 0", "division by zero");
      uint64_t minv = 1ull << (w - 1);
      ub("!(" + op(0) + " == UINT64_C(" + std::to_string(minv) + ") && " + sx(op(1), w) + " == -1)", "signed division overflow");
      b << lhs << mask("(" + sopTy(w) + ")" + sx(op(0), w) + (I.getOpcode() == Instruction::SDiv ? " / " : " % ") + "(" + sopTy(w) + ")" + sx(op(1), w), w) << ";\n";
      break;
    }
    case Instruction::Shl: case Instruction::LShr: case Instruction::AShr: {
      unsigned w = t->getIntegerBitWidth();
      ub(op(1) + " < " + std::to_string(w), "shift amount out of range");
      if (I.getOpcode() == Instruction::Shl) b << lhs << mask("(" + opTy(w) + ")" + op(0) + " << " + op(1), w) << ";\n";
      else if (I.getOpcode() == Instruction::LShr) b << lhs << mask("(" + opTy(w) + ")" + op(0) + " >> " + op(1), w) << ";\n";
      else b << lhs << mask("(" + sopTy(w) + ")" + sx(op(0), w) + " >> " + op(1), w) << ";\n";
      break;
    }
    case Instruction::FAdd: if (optDyadic >= 0) { b << lhs << "ll_fx_add(" << op(0) << ", " << op(1) << ");\n"; break; } b << lhs << op(0) << " + " << op(1) << ";\n"; break;
    case Instruction::FSub: if (optDyadic >= 0) { b << lhs << "ll_fx_sub(" << op(0) << ", " << op(1) << ");\n"; break; } b << lhs << op(0) << " - " << op(1) << ";\n"; break;
    case Instruction::FMul: case Instruction::FDiv:
      if (optDyadic >= 0) {
        // multiplication/division by a constant that is not on the grid (e.g. 1/sqrt 2): exact only when the other operand is 0
        auto offgrid = [&](const Value *v) { auto *cf = dyn_cast<ConstantFP>(v); return cf && fpLit(cf->getValueAPF(), true).rfind("LL_FX_INEXACT", 0) == 0; };
        bool isMul = I.getOpcode() == Instruction::FMul;
        if (offgrid(I.getOperand(1))) { b << lhs << "ll_fx_zero_or_fail(" << op(0) << ");\n"; break; }
        if (isMul && offgrid(I.getOperand(0))) { b << lhs << "ll_fx_zero_or_fail(" << op(1) << ");\n"; break; }
        b << lhs << (isMul ? "ll_fx_mul(" : "ll_fx_div(") << op(0) << ", " << op(1) << ");\n"; break;
      }
      b << lhs << op(0) << (I.getOpcode() == Instruction::FMul ? " * " : " / ") << op(1) << ";\n"; break;
    case Instruction::FRem: b << lhs << (t->isFloatTy() ? "fmodf(" : "fmod(") << op(0) << ", " << op(1) << ");\n"; break;
    case Instruction::FNeg: if (optDyadic >= 0) { b << lhs << "ll_fx_sub((ll_fx)0, " << op(0) << ");\n"; break; } b << lhs << "-" << op(0) << ";\n"; break;
    case Instruction::ICmp: {
      auto *ic = cast<ICmpInst>(&I);
      Type *ot = ic->getOperand(0)->getType();
      string a = op(0), c = op(1);
      if (ot->isPointerTy()) {
        if (ic->isEquality()) { a = "(void*)" + a; c = "(void*)" + c; }
        else {
          const char *nm = (ic->getPredicate() == ICmpInst::ICMP_ULT || ic->getPredicate() == ICmpInst::ICMP_SLT) ? "LT" :
                           (ic->getPredicate() == ICmpInst::ICMP_ULE || ic->getPredicate() == ICmpInst::ICMP_SLE) ? "LE" :
                           (ic->getPredicate() == ICmpInst::ICMP_UGT || ic->getPredicate() == ICmpInst::ICMP_SGT) ? "GT" : "GE";
          b << lhs << "(uint8_t)LL_PTR_" << nm << "(" << a << ", " << c << ");\n";
          break;
        }
      } else if (ic->isSigned()) { unsigned w = ot->getIntegerBitWidth(); a = sx(a, w); c = sx(c, w); }
      const char *o;
      switch (ic->getPredicate()) {
        case ICmpInst::ICMP_EQ: o = "=="; break; case ICmpInst::ICMP_NE: o = "!="; break;
        case ICmpInst::ICMP_UGT: case ICmpInst::ICMP_SGT: o = ">"; break;
        case ICmpInst::ICMP_UGE: case ICmpInst::ICMP_SGE: o = ">="; break;
        case ICmpInst::ICMP_ULT: case ICmpInst::ICMP_SLT: o = "<"; break;
        case ICmpInst::ICMP_ULE: case ICmpInst::ICMP_SLE: o = "<="; break;
        default: die("icmp pred");
      }
      b << lhs << "(uint8_t)(" << a << " " << o << " " << c << ");\n";
      break;
    }
    case Instruction::FCmp: {
      auto *fc = cast<FCmpInst>(&I);
      if (optDyadic >= 0) {        // no NaN on the grid: ordered and unordered predicates coincide
        const char *o = 0; bool cst = false, cv = false;
        switch (fc->getPredicate()) {
          case FCmpInst::FCMP_OEQ: case FCmpInst::FCMP_UEQ: o = "=="; break; case FCmpInst::FCMP_ONE: case FCmpInst::FCMP_UNE: o = "!="; break;
          case FCmpInst::FCMP_OGT: case FCmpInst::FCMP_UGT: o = ">"; break; case FCmpInst::FCMP_OGE: case FCmpInst::FCMP_UGE: o = ">="; break;
          case FCmpInst::FCMP_OLT: case FCmpInst::FCMP_ULT: o = "<"; break; case FCmpInst::FCMP_OLE: case FCmpInst::FCMP_ULE: o = "<="; break;
          case FCmpInst::FCMP_ORD: case FCmpInst::FCMP_TRUE: cst = true; cv = true; break; default: cst = true; cv = false; break;
        }
        if (cst) b << lhs << "(uint8_t)" << (cv ? 1 : 0) << ";\n"; else b << lhs << "(uint8_t)((int32_t)" << op(0) << " " << o << " (int32_t)" << op(1) << ");\n";
        break;
      }
      b << lhs << "(uint8_t)" << fcmpExpr(fc->getPredicate(), op(0), op(1)) << ";\n";
      break;
    }
    case Instruction::Trunc: b << lhs << mask(op(0), t->getIntegerBitWidth()) << ";\n"; break;
    case Instruction::ZExt: b << lhs << "(" << ctype(t) << ")" << op(0) << ";\n"; break;
    case Instruction::SExt: b << lhs << mask(sx(op(0), I.getOperand(0)->getType()->getIntegerBitWidth()), t->getIntegerBitWidth()) << ";\n"; break;
    case Instruction::FPTrunc: case Instruction::FPExt: if (optDyadic >= 0) die("double arithmetic in dyadic mode: " + I.getFunction()->getName().str()); b << lhs << "(" << ctype(t) << ")" << op(0) << ";\n"; break;
    case Instruction::FPToUI: if (optDyadic >= 0) { b << lhs << mask("ll_fx_toint(" + op(0) + ")", t->getIntegerBitWidth()) << ";\n"; break; } b << lhs << mask("(" + opTy(t->getIntegerBitWidth()) + ")" + op(0), t->getIntegerBitWidth()) << ";\n"; break;
    case Instruction::FPToSI: {
      unsigned w = t->getIntegerBitWidth();
      if (optDyadic >= 0) { b << lhs << mask("ll_fx_toint(" + op(0) + ")", w) << ";\n"; break; }
      if (optUB && isStd(w) && w <= 32) ub("LL_FPTOSI_OK" + std::to_string(w) + "(" + op(0) + ")", "float to int conversion out of range");
      b << lhs << mask("(" + sopTy(w) + ")" + op(0), w) << ";\n"; break;
    }
    case Instruction::UIToFP: if (optDyadic >= 0) { b << lhs << "ll_fx_fromint((int64_t)" << op(0) << ");\n"; break; } b << lhs << "(" << ctype(t) << ")" << op(0) << ";\n"; break;
    case Instruction::SIToFP: if (optDyadic >= 0) { b << lhs << "ll_fx_fromint((int64_t)" << sx(op(0), I.getOperand(0)->getType()->getIntegerBitWidth()) << ");\n"; break; } b << lhs << "(" << ctype(t) << ")" << sx(op(0), I.getOperand(0)->getType()->getIntegerBitWidth()) << ";\n"; break;
    case Instruction::PtrToInt: b << lhs << mask("(uintptr_t)" + op(0), t->getIntegerBitWidth()) << ";\n"; break;
    case Instruction::IntToPtr: b << lhs << "(" << ctype(t) << ")(uintptr_t)" << op(0) << ";\n"; break;
    case Instruction::AddrSpaceCast:
    case Instruction::BitCast: {
      Type *st = I.getOperand(0)->getType();
      if (t->isPointerTy() && st->isPointerTy()) b << lhs << "(" << ctype(t) << ")" << op(0) << ";\n";
      else {
        if (optDyadic >= 0 && (t->isFloatTy() || st->isFloatTy())) { b << "  LL_FX_UNSUPPORTED(\"float bit pattern used\"); " << F->names[&I] << " = 0;\n"; break; }
        // reinterpret bits
        string tmp = F->names[&I] + "_src";
        F->locals.push_back({ctype(st), tmp});
        b << "  " << tmp << " = " << op(0) << "; memcpy(&" << F->names[&I] << ", &" << tmp << ", sizeof(" << F->names[&I] << "));\n";
      }
      break;
    }
    case Instruction::Freeze: b << lhs << op(0) << ";\n"; break;
    case Instruction::Load: {
      auto *li = cast<LoadInst>(&I);
      if (t->isIntegerTy() && !isStd(t->getIntegerBitWidth()) && t->getIntegerBitWidth() > 8) {
        unsigned nb = (t->getIntegerBitWidth() + 7) / 8;
        b << "  " << F->names[&I] << " = 0; memcpy(&" << F->names[&I] << ", (const void*)" << val(li->getPointerOperand()) << ", " << nb << ");\n";
        b << "  " << F->names[&I] << " = " << mask(F->names[&I], t->getIntegerBitWidth()) << ";\n";
      } else if (t->isIntegerTy() && t->getIntegerBitWidth() < 8) {
        b << lhs << mask("*" + val(li->getPointerOperand()), t->getIntegerBitWidth()) << ";\n";
      } else b << lhs << "*" << val(li->getPointerOperand()) << ";\n";
      break;
    }
    case Instruction::Store: {
      auto *si = cast<StoreInst>(&I);
      Type *vt = si->getValueOperand()->getType();
      if (curFrozen) b << "  FROZEN_CHECK(" << val(si->getPointerOperand()) << ");\n";
      if (vt->isIntegerTy() && !isStd(vt->getIntegerBitWidth()) && vt->getIntegerBitWidth() > 8) {
        unsigned nb = (vt->getIntegerBitWidth() + 7) / 8;
        string tmp = "st" + std::to_string(F->ctr++);
        F->locals.push_back({ctype(vt), tmp});
        b << "  " << tmp << " = " << val(si->getValueOperand()) << "; memcpy((void*)" << val(si->getPointerOperand()) << ", &" << tmp << ", " << nb << ");\n";
      } else b << "  *" << val(si->getPointerOperand()) << " = " << val(si->getValueOperand()) << ";\n";
      break;
    }
    case Instruction::GetElementPtr: {
      auto *g = cast<GetElementPtrInst>(&I);
      std::vector<const Value*> idx; for (auto it = g->idx_begin(); it != g->idx_end(); ++it) idx.push_back(*it);
      b << lhs << gepExpr(g->getSourceElementType(), val(g->getPointerOperand()), idx, val) << ";\n";
      break;
    }
    case Instruction::PHI: break;   // handled on edges
    case Instruction::Select: b << lhs << "(" << op(0) << " ? " << op(1) << " : " << op(2) << ");\n"; break;
    case Instruction::Call: emitCall(cast<CallInst>(&I)); break;
    case Instruction::Alloca: break;  // handled at function top
    case Instruction::ExtractValue: {
      auto *ev = cast<ExtractValueInst>(&I);
      string e = op(0); Type *cur = ev->getAggregateOperand()->getType();
      for (unsigned i : ev->indices()) {
        if (auto *st = dyn_cast<StructType>(cur)) { e += ".f" + std::to_string(i); cur = st->getElementType(i); }
        else { e += ".a[" + std::to_string(i) + "]"; cur = cast<ArrayType>(cur)->getElementType(); }
      }
      b << lhs << e << ";\n"; break;
    }
    case Instruction::InsertValue: {
      auto *iv = cast<InsertValueInst>(&I);
      string e = F->names[&I]; Type *cur = t;
      for (unsigned i : iv->indices()) {
        if (auto *st = dyn_cast<StructType>(cur)) { e += ".f" + std::to_string(i); cur = st->getElementType(i); }
        else { e += ".a[" + std::to_string(i) + "]"; cur = cast<ArrayType>(cur)->getElementType(); }
      }
      b << lhs << op(0) << ";\n  " << e << " = " << op(1) << ";\n"; break;
    }
    case Instruction::ExtractElement: b << lhs << op(0) << ".a[" << op(1) << "];\n"; break;
    case Instruction::InsertElement: b << lhs << op(0) << ";\n  " << F->names[&I] << ".a[" << op(2) << "] = " << op(1) << ";\n"; break;
    case Instruction::ShuffleVector: {
      auto *sv = cast<ShuffleVectorInst>(&I);
      unsigned n1 = cast<FixedVectorType>(sv->getOperand(0)->getType())->getNumElements();
      unsigned k = 0;
      string a0 = "sv" + std::to_string(F->ctr++), a1 = "sv" + std::to_string(F->ctr++);
      F->locals.push_back({ctype(sv->getOperand(0)->getType()), a0}); F->locals.push_back({ctype(sv->getOperand(1)->getType()), a1});
      b << "  " << a0 << " = " << op(0) << "; " << a1 << " = " << op(1) << ";\n";
      for (int m : sv->getShuffleMask()) {
        if (m >= 0) b << "  " << F->names[&I] << ".a[" << k << "] = " << ((unsigned)m < n1 ? a0 : a1) << ".a[" << ((unsigned)m < n1 ? m : m - n1) << "];\n";
        ++k;
      }
      break;
    }
    case Instruction::Ret:
      if (I.getNumOperands()) b << "  return " << op(0) << ";\n"; else b << "  return;\n";
      break;
    case Instruction::Br: {
      auto *br = cast<BranchInst>(&I);
      if (br->isUnconditional()) emitGoto(I.getParent(), br->getSuccessor(0), "  ");
      else {
        b << "  if (" << val(br->getCondition()) << ") {\n"; emitGoto(I.getParent(), br->getSuccessor(0), "    ");
        b << "  } else {\n"; emitGoto(I.getParent(), br->getSuccessor(1), "    "); b << "  }\n";
      }
      break;
    }
    case Instruction::Switch: {
      auto *sw = cast<SwitchInst>(&I);
      b << "  switch (" << val(sw->getCondition()) << ") {\n";
      for (auto &c : sw->cases()) {
        b << "    case " << intLit(c.getCaseValue()->getValue()) << ": {\n"; emitGoto(I.getParent(), c.getCaseSuccessor(), "      "); b << "    }\n";
      }
      b << "    default: {\n"; emitGoto(I.getParent(), sw->getDefaultDest(), "      "); b << "    }\n  }\n";
      break;
    }
    case Instruction::IndirectBr: {
      auto *ib = cast<IndirectBrInst>(&I);
      b << "  switch ((uintptr_t)" << val(ib->getAddress()) << ") {\n";
      std::set<const BasicBlock*> seen;
      for (unsigned i = 0; i < ib->getNumDestinations(); ++i) {
        const BasicBlock *d = ib->getDestination(i);
        if (!seen.insert(d).second) continue;
        if (!blockAddrId.count(d)) blockAddrId[d] = blockAddrCtr++;
        b << "    case " << blockAddrId[d] << ": {\n"; emitGoto(I.getParent(), d, "      "); b << "    }\n";
      }
      b << "    default: LL_UNREACHABLE(\"indirectbr to unknown label\");\n  }\n";
      break;
    }
    case Instruction::Unreachable: b << "  LL_UNREACHABLE(\"unreachable\");\n"; break;
    default: { string s; raw_string_ostream os(s); I.print(os); die("unsupported instruction " + os.str()); }
  }
}

static string fnProto(const Function &fn) {
  string s = ctype(fn.getReturnType()) + " " + gname(&fn) + "(";
  unsigned i = 0;
  for (const Argument &a : fn.args()) { if (i) s += ", "; s += ctype(a.getType()) + " a" + std::to_string(i++); }
  if (fn.arg_empty()) s += "void";
  if (fn.isVarArg()) die("vararg function definition " + fn.getName().str());
  return s + ")";
}

static void emitFunction(const Function &fn) {
  FnCtx ctx; F = &ctx;
  DominatorTree DT(const_cast<Function&>(fn)); LoopInfo LI(DT); curLI = &LI;
  curFrozen = optFrozen && fn.getName().find("vh_") == StringRef::npos && !fn.getName().startswith("ll_");
  unsigned i = 0;
  for (const Argument &a : fn.args()) ctx.names[&a] = "a" + std::to_string(i++);
  unsigned bbn = 0;
  for (const BasicBlock &bb : fn) {
    ctx.bbId[&bb] = bbn++;
    for (const Instruction &I : bb) {
      if (auto *ai = dyn_cast<AllocaInst>(&I)) {
        if (!ai->isStaticAlloca()) die("dynamic alloca in " + fn.getName().str());
        string n = "al" + std::to_string(ctx.ctr++);
        uint64_t cnt = cast<ConstantInt>(ai->getArraySize())->getZExtValue();
        string ty = ctype(ai->getAllocatedType());
        if (cnt == 1) { ctx.locals.push_back({ty, n}); ctx.names[&I] = "(&" + n + ")"; }
        else { ctx.locals.push_back({ty, n + "[" + std::to_string(cnt) + "]"}); ctx.names[&I] = "(&" + n + "[0])"; }
        continue;
      }
      if (I.getType()->isVoidTy()) continue;
      string n = "v" + std::to_string(ctx.ctr++);
      ctx.names[&I] = n;
      ctx.locals.push_back({ctype(I.getType()), n});
      if (isa<PHINode>(I)) ctx.locals.push_back({ctype(I.getType()), n + "_in"});
    }
  }
  // byval params: private copy
  i = 0;
  for (const Argument &a : fn.args()) {
    if (a.hasByValAttr()) {
      string ty = ctype(a.getParamByValType());
      ctx.body << "  " << ty << " byval" << i << " = *a" << i << "; a" << i << " = &byval" << i << ";\n";
    }
    ++i;
  }
  for (const BasicBlock &bb : fn) {
    ctx.body << " bb" << ctx.bbId[&bb] << ": ;\n";
    for (const Instruction &I : bb) emitInst(I);
  }
  out << fnProto(fn) << " {\n";
  for (auto &l : ctx.locals) out << "  " << l.first << " " << l.second << ";\n";
  out << ctx.body.str() << "}\n\n";
  F = nullptr;
}

int main(int argc, char **argv) {
  string in, outPath; string prelude = "ll2c_prelude.h";
  for (int i = 1; i < argc; ++i) {
    string a = argv[i];
    if (a == "-o") outPath = argv[++i];
    else if (a == "--ub") optUB = true;
    else if (a == "--frozen") optFrozen = true;
    else if (a == "--dyadic") optDyadic = atoi(argv[++i]);
    else if (a == "--prelude") prelude = argv[++i];
    else in = a;
  }
  if (in.empty() || outPath.empty()) die("usage: ll2c in.ll -o out.c [--ub] [--frozen]");
  LLVMContext ctx; SMDiagnostic err;
  std::unique_ptr<Module> M = parseIRFile(in, err, ctx);
  if (!M) { err.print("ll2c", errs()); return 2; }
  DL = &M->getDataLayout();

  // names of externals first so that sanitised internal names cannot collide with them
  for (const Function &fn : *M) if (fn.isDeclaration()) gname(&fn);
  // collect types
  for (const GlobalVariable &g : M->globals()) { registerType(g.getValueType()); }
  for (const Function &fn : *M) {
    registerType(fn.getFunctionType());
    for (const BasicBlock &bb : fn) for (const Instruction &I : bb) {
      registerType(I.getType());
      for (const Use &u : I.operands()) registerType(u->getType());
      if (auto *ai = dyn_cast<AllocaInst>(&I)) registerType(ai->getAllocatedType());
      if (auto *g = dyn_cast<GetElementPtrInst>(&I)) registerType(g->getSourceElementType());
      if (auto *cb = dyn_cast<CallBase>(&I)) registerType(cb->getFunctionType());
    }
  }
  // constant expressions may mention further types: walk global initialisers / operands
  std::set<const Constant*> seenC;
  std::function<void(const Constant*)> walkC = [&](const Constant *c) {
    if (!seenC.insert(c).second) return;
    registerType(c->getType());
    if (auto *go = dyn_cast<GEPOperator>(c)) registerType(go->getSourceElementType());
    if (isa<GlobalValue>(c)) return;
    for (const Use &u : c->operands()) if (auto *cc = dyn_cast<Constant>(u.get())) walkC(cc);
  };
  for (const GlobalVariable &g : M->globals()) if (g.hasInitializer()) walkC(g.getInitializer());
  for (const Function &fn : *M) for (const BasicBlock &bb : fn) for (const Instruction &I : bb)
    for (const Use &u : I.operands()) if (auto *cc = dyn_cast<Constant>(u.get())) walkC(cc);

  out << "/* generated by ll2c from " << in << " */\n";
  if (optDyadic >= 0) out << "#define LL_DYADIC_K " << optDyadic << "\n";
  out << "#include \"" << prelude << "\"\n\n";
  emitTypeDefs();
  out << "\n";
  // prototypes
  for (const Function &fn : *M) {
    if (fn.isIntrinsic()) continue;
    string n = fn.getName().str();
    if (fn.isDeclaration() && (libcFns.count(n) || StringRef(n).startswith("__CPROVER"))) continue;
    if (fn.isDeclaration() && fn.isVarArg()) continue;
    if (fn.isDeclaration() && fn.getName().contains("vh_typed_alloc")) continue;
    out << fnProto(fn) << ";\n";
  }
  out << "\n";
  // globals: tentative declarations then definitions
  for (const GlobalVariable &g : M->globals()) {
    if (g.getName().startswith("llvm.")) continue;
    out << (g.hasInitializer() ? "static " : "extern ") << ctype(g.getValueType()) << " " << gname(&g) << ";\n";
  }
  for (const GlobalVariable &g : M->globals()) {
    if (g.getName().startswith("llvm.") || !g.hasInitializer()) continue;
    out << "static " << ctype(g.getValueType()) << " " << gname(&g) << " = " << constAggInit(g.getInitializer()) << ";\n";
  }
  out << "\n";
  // mutable-global report for C08/C09 (non-constant globals with definitions)
  out << "/* MUTABLE_GLOBALS:";
  for (const GlobalVariable &g : M->globals()) if (g.hasInitializer() && !g.isConstant() && !g.getName().startswith("llvm.")) out << " " << g.getName().str();
  out << " */\n\n";
  for (const Function &fn : *M) if (!fn.isDeclaration()) emitFunction(fn);

  std::ofstream of(outPath); of << out.str();
  return 0;
}
