#!/usr/bin/env python3
"""Writes MANIFEST.json from tool/manifest_data.py (kept as code so the per-property texts live next to the queries)."""
import json, os, sys
sys.path.insert(0, os.path.dirname(os.path.abspath(__file__)))
import manifest_data as md
props = [json.loads(l)["id"] for l in open(os.path.join(os.path.dirname(__file__), "..", "properties.jsonl"))]
checks, na = [], []
for pid in props:
    if pid in md.CLAIMED:
        c = md.CLAIMED[pid]
        checks.append({
            "property_id": pid,
            "quick_cmd": f"python3 tool/run_check.py {pid} --tier quick",
            "thorough_cmd": f"python3 tool/run_check.py {pid} --tier thorough",
            "evidence_file": f"evidence/{pid}.json",
            "replay_cmd_template": "python3 tool/run_check.py --replay {path}",
            "engine": "irc",
            "level_claimed": {"category": "model_checking", "text": c["text"], "design_ref": c["ref"]},
            "level_note": c["note"],
            "technique": c.get("technique", "bounded symbolic execution of the real code: clang-14 LLVM IR of /repo/src -> C (ll2c) -> cbmc 6.11 (SAT), unwinding assertions, native ASan/UBSan replay of counterexamples"),
        })
    else:
        na.append({"property_id": pid, "reason": md.NOT_APPLICABLE.get(pid, "no conclusive registered query yet; see DESIGN.md")})
m = {
    "version": 1,
    "setup_cmd": "python3 tool/run_check.py --setup",
    "hooks": {"guard": "GRAPHITE2_VERIF", "enable": "checks compile /repo/src to LLVM IR with -DGRAPHITE2_VERIF (no hook code is currently needed: harnesses reach internal state with -fno-access-control and IR symbol binding)",
              "baseline_off_cmd": "cmake --build /repo/_build && ctest --test-dir /repo/_build -j8 --timeout 900", "source_commits": [], "add_only": True},
    "engines": [{"name": "irc", "path": "tool/run_check.py", "serves_properties": sorted(md.CLAIMED), "kind_free_text": "clang-14 LLVM IR of the real sources + C++ harness -> llvm-link/opt -> ll2c (own IR->C translator, tool/ll2c.cpp) -> cbmc 6.11 bounded model checking with unwinding assertions; translator validated on every run by a whole-library differential against the gcc build; counterexamples replayed natively under ASan/UBSan"}],
    "checks": checks,
    "notes": md.NOTES,
    "not_applicable": na,
}
json.dump(m, open(os.path.join(os.path.dirname(__file__), "..", "MANIFEST.json"), "w"), indent=1)
print("claimed", len(checks), "not_applicable", len(na))
