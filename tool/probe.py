#!/usr/bin/env python3
"""probe.py <pid> <query-name> [--timeout N] [cbmc flags...]: run one registered query with extra cbmc flags (calibration aid)."""
import sys, json
sys.path.insert(0, __file__.rsplit("/", 1)[0])
import run_check as rc, queries
pid, name = sys.argv[1], sys.argv[2]
args = sys.argv[3:]
timeout = 240
if args and args[0] == "--timeout": timeout = int(args[1]); args = args[2:]
cache, ll2c, val = rc.prepare()
q = [q for q in queries.QUERIES[pid]() if q.name == name][0]
q.cbmc_flags = q.cbmc_flags + args
q.name = q.name + "_probe" + str(abs(hash(" ".join(args))) % 1000)
r = rc.run_query(q, cache, ll2c, "probe", "quick", True, timeout, 14)
print(name, args, r["verdict"], r.get("seconds"), r.get("reason", ""), [f["description"] for f in r.get("failed", [])][:5], (r.get("replay") or {}).get("reproduced"))
