/* prelude for C emitted by ll2c; two modes: cbmc (__CPROVER__ defined) and native gcc/clang */
#include <stdint.h>
#include <stddef.h>
#include <string.h>
#include <stdlib.h>
#include <stdio.h>
#include <math.h>

#ifdef __CPROVER__
#define LL_UB(c, m) __CPROVER_assert((c), "UB: " m)
#define LL_UNREACHABLE(m) do { __CPROVER_assert(0, m); __CPROVER_assume(0); } while (0)
#define LL_OVF_S_add(a, b) __CPROVER_overflow_plus((a), (b))
#define LL_OVF_S_sub(a, b) __CPROVER_overflow_minus((a), (b))
#define LL_OVF_S_mul(a, b) __CPROVER_overflow_mult((a), (b))
#define LL_OVF_U_add(a, b) __CPROVER_overflow_plus((a), (b))
#define LL_OVF_U_sub(a, b) __CPROVER_overflow_minus((a), (b))
#define LL_OVF_U_mul(a, b) __CPROVER_overflow_mult((a), (b))
#define LL_FABSF(x) __CPROVER_fabsf(x)
#define LL_FABS(x) __CPROVER_fabs(x)
#else
#define LL_UB(c, m) ((void)0)
#define LL_UNREACHABLE(m) abort()
#define LL_FABSF(x) fabsf(x)
#define LL_FABS(x) fabs(x)
#endif
#define LL_FPTOSI_OK32(x) ((x) > -2147483904.0 && (x) < 2147483648.0)
#define LL_FPTOSI_OK16(x) ((x) > -32769.0 && (x) < 32768.0)
#define LL_FPTOSI_OK8(x) ((x) > -129.0 && (x) < 128.0)

/* relational operators on pointers: flat address space on the real target; under cbmc pointers into the
   same object compare by signed offset (a pointer formed before the start of its object still compares below it) */
#ifdef __CPROVER__
#ifndef LL_OBJBITS
#define LL_OBJBITS 8
#endif
/* cbmc keeps the offset in 64-LL_OBJBITS bits; sign-extend it so that 'object - k' has offset -k */
#define LL_PTR_OFF(a) (((int64_t)((uint64_t)__CPROVER_POINTER_OFFSET((const void *)(a)) << LL_OBJBITS)) >> LL_OBJBITS)
#define LL_PTR_CMP(a, b, op) ((__CPROVER_POINTER_OBJECT((const void *)(a)) == __CPROVER_POINTER_OBJECT((const void *)(b))) \
    ? (LL_PTR_OFF(a) op LL_PTR_OFF(b)) : ((uintptr_t)(a) op (uintptr_t)(b)))
#else
#define LL_PTR_CMP(a, b, op) ((uintptr_t)(a) op (uintptr_t)(b))
#endif
#ifdef __CPROVER__
#define LL_PTR_DIFF(a, b) ((__CPROVER_POINTER_OBJECT((const void *)(a)) == __CPROVER_POINTER_OBJECT((const void *)(b))) \
    ? (uint64_t)(LL_PTR_OFF(a) - LL_PTR_OFF(b)) : ((uint64_t)(uintptr_t)(a) - (uint64_t)(uintptr_t)(b)))
#else
#define LL_PTR_DIFF(a, b) ((uint64_t)(uintptr_t)(a) - (uint64_t)(uintptr_t)(b))
#endif
#define LL_PTR_LT(a, b) LL_PTR_CMP(a, b, <)
#define LL_PTR_LE(a, b) LL_PTR_CMP(a, b, <=)
#define LL_PTR_GT(a, b) LL_PTR_CMP(a, b, >)
#define LL_PTR_GE(a, b) LL_PTR_CMP(a, b, >=)

/* copies and (re-)allocations of symbolic length: cbmc's models of symbolic-size malloc/memmove/realloc run the solver out of memory.
   -DLL_MEM_CASES=a,b,c lists every length the harness expects (constant or not); each becomes a constant-size operation.  A length
   outside the list is reported like an unwinding assertion (the query is then inconclusive, never silently cut). */
#define LL_BEYOND(what) do { __CPROVER_assert(0, "unwinding assertion: " what " length outside the LL_MEM_CASES list of the harness"); __CPROVER_assume(0); } while (0)
#if defined(__CPROVER__) && defined(LL_MEM_CASES)
static const size_t ll_cases[] = {LL_MEM_CASES};
#define LL_NCASES (sizeof ll_cases / sizeof ll_cases[0])
static void ll_memmove_sym(void *d, const void *s, size_t n) {
  for (size_t i = 0; i < LL_NCASES; ++i) if (n == ll_cases[i]) { memmove(d, s, ll_cases[i]); return; }
  LL_BEYOND("copy");
}
static void *ll_realloc_split(void *p, size_t n) {
  for (size_t i = 0; i < LL_NCASES; ++i) if (n == ll_cases[i]) return realloc(p, ll_cases[i]);
  LL_BEYOND("realloc"); return (void *)0;
}
static void *ll_malloc_split(size_t n) {
  for (size_t i = 0; i < LL_NCASES; ++i) if (n == ll_cases[i]) return malloc(ll_cases[i]);
  LL_BEYOND("malloc"); return (void *)0;
}
static void *ll_calloc_split(size_t c, size_t s) {
  for (size_t i = 0; i < LL_NCASES; ++i) if (c * s == ll_cases[i]) return calloc(1, ll_cases[i]);
  LL_BEYOND("calloc"); return (void *)0;
}
#define LL_memmove_sym ll_memmove_sym
#define LL_malloc ll_malloc_split
#define LL_calloc ll_calloc_split
#define LL_realloc ll_realloc_split
#else
#define LL_memmove_sym memmove
#define LL_malloc malloc
#define LL_calloc calloc
#if defined(__CPROVER__) && defined(LL_REALLOC_UNREACHABLE)
/* harnesses whose containers are pre-sized: growing is outside the bound (reported like an unwinding assertion, never silently cut) */
static void *ll_realloc_unreachable(void *p, size_t n) { (void)p; (void)n; __CPROVER_assert(0, "unwinding assertion: realloc reached (container grew beyond the harness capacity)"); __CPROVER_assume(0); return (void *)0; }
#define LL_realloc ll_realloc_unreachable
#else
#define LL_realloc realloc
#endif
#endif
#define LL_malloc_const malloc
#define LL_calloc_const calloc
#define LL_free free
#define LL_memcpy memcpy
#define LL_memmove memmove
#define LL_memset memset
#define LL_memcmp memcmp
#define LL_strlen strlen
#define LL_strchr strchr
#define LL_strcmp strcmp
#define LL_strncmp strncmp
#define LL_abort abort
#define LL_exit exit
#ifndef LL_qsort
#define LL_qsort ll_qsort
#endif
#ifndef LL_fopen
#define LL_fopen fopen
#define LL_fclose(f) fclose((FILE*)(f))
#define LL_fseek(f, o, w) fseek((FILE*)(f), (o), (w))
#define LL_ftell(f) ftell((FILE*)(f))
#define LL_fread(p, s, n, f) fread((p), (s), (n), (FILE*)(f))
#endif

/* insertion sort calling the real comparator: bounded by the element count of the harness */
static void ll_qsort(void *base, size_t n, size_t sz, void *cmpv) {
  int (*cmp)(const void *, const void *) = (int (*)(const void *, const void *))cmpv;
  unsigned char *b = (unsigned char *)base;
  unsigned char tmp[64];
#ifdef __CPROVER__
  __CPROVER_assert(sz <= sizeof tmp, "ll_qsort element size");
#endif
  for (size_t i = 1; i < n; ++i) {
    size_t j = i;
    memcpy(tmp, b + i * sz, sz);
    while (j > 0 && cmp(b + (j - 1) * sz, tmp) > 0) { memcpy(b + j * sz, b + (j - 1) * sz, sz); --j; }
    memcpy(b + j * sz, tmp, sz);
  }
}

static inline uint32_t ll_bswap32(uint32_t x) { return (x >> 24) | ((x >> 8) & 0xff00u) | ((x << 8) & 0xff0000u) | (x << 24); }
static inline uint64_t ll_bswap64(uint64_t x) { return ((uint64_t)ll_bswap32((uint32_t)x) << 32) | ll_bswap32((uint32_t)(x >> 32)); }
static inline uint64_t ll_popcount64(uint64_t x) { uint64_t c = 0; for (int i = 0; i < 64; ++i) c += (x >> i) & 1; return c; }
static inline uint64_t ll_ctlz(uint64_t x, unsigned w) { uint64_t c = 0; for (int i = (int)w - 1; i >= 0 && !((x >> i) & 1); --i) ++c; return c; }
static inline uint64_t ll_cttz(uint64_t x, unsigned w) { uint64_t c = 0; for (unsigned i = 0; i < w && !((x >> i) & 1); ++i) ++c; return c; }

/* exact-dyadic lowering (DESIGN 1.5): float = int32 holding value * 2^K.  Every operation carries its exactness and
   representability obligations (|m| < 2^24: exactly representable in a 24-bit significand); if they all hold on the assumed input
   grid, every IEEE operation of the real code returns the exact result and the integer run IS the float run on those inputs. */
#ifdef LL_DYADIC_K
typedef int32_t ll_fx;
#ifdef __CPROVER__
#define LL_FX_OBL(c, m) __CPROVER_assert((c), "DYADIC: " m)
#else
#define LL_FX_OBL(c, m) ((void)0)
#endif
#define LL_FX_LIM 16777216
static inline ll_fx ll_fx_chk(int64_t m) { LL_FX_OBL(m > -LL_FX_LIM && m < LL_FX_LIM, "result exactly representable (|m| < 2^24)"); return (ll_fx)m; }
static inline ll_fx ll_fx_add(ll_fx a, ll_fx b) { return ll_fx_chk((int64_t)a + (int64_t)b); }
static inline ll_fx ll_fx_sub(ll_fx a, ll_fx b) { return ll_fx_chk((int64_t)a - (int64_t)b); }
static inline ll_fx ll_fx_mul(ll_fx a, ll_fx b) { int64_t p = (int64_t)a * (int64_t)b; LL_FX_OBL((p & ((1 << LL_DYADIC_K) - 1)) == 0, "product on the grid (no bits dropped)"); return ll_fx_chk(p / (1 << LL_DYADIC_K)); }
static inline ll_fx ll_fx_div(ll_fx a, ll_fx b) { LL_FX_OBL(b != 0, "division by zero"); int64_t n = (int64_t)a * (1 << LL_DYADIC_K); if (b == 0) return 0; LL_FX_OBL(n % b == 0, "quotient on the grid (exact)"); return ll_fx_chk(n / b); }
static inline ll_fx ll_fx_fromint(int64_t x) { return ll_fx_chk(x * (1 << LL_DYADIC_K)); }
static inline int64_t ll_fx_toint(ll_fx a) { return (int64_t)a / (1 << LL_DYADIC_K); }     /* truncates toward zero like fptosi */
static inline ll_fx ll_fx_zero_or_fail(ll_fx a) { LL_FX_OBL(a == 0, "multiplication/division by an off-grid constant is exact only for 0"); return 0; }
#define LL_FX_INEXACT(v) (LL_FX_OBL(0, "float constant off the grid is used"), (ll_fx)(v))
#define LL_FX_UNSUPPORTED(m) LL_FX_OBL(0, "unsupported float construct reached: " m)
#endif

/* element-wise memmove for arrays of one struct type (see ll2c) */
#define LL_TYPED_MOVE(T, d, s, n) do { \
    T *d_ = (T *)(d); const T *s_ = (const T *)(s); size_t n_ = (n), k_ = n_ / sizeof(T); \
    if (n_ % sizeof(T) != 0) memmove((void *)d_, (const void *)s_, n_); \
    else if (LL_PTR_LE(d_, s_)) { for (size_t i_ = 0; i_ < k_; ++i_) d_[i_] = s_[i_]; } \
    else { for (size_t i_ = k_; i_ > 0; --i_) d_[i_ - 1] = s_[i_ - 1]; } \
  } while (0)

#define FROZEN_CHECK(p) ll_frozen_check((uint8_t *)(p))
