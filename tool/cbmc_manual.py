#!/usr/bin/env python3
"""cbmc_manual.py <pid> <query> <m|w> [extra cbmc flags]: run cbmc on an already built (--keep) query with the pipeline's unwindset (profiling aid)."""
import sys, os, subprocess
sys.path.insert(0, os.path.dirname(os.path.abspath(__file__)))
import run_check as rc, queries
pid, name, tag = sys.argv[1:4]
q = [q for q in queries.QUERIES[pid]() if q.name == name][0]
qdir = os.path.join(rc.BUILD, "q", pid, name)
gb, c = os.path.join(qdir, f"m.{tag}.gb"), os.path.join(qdir, f"m.{tag}.c")
sets, _ = rc.loop_bounds(q, gb, c)
if tag == "w": sets = [s for s in sets if not s.startswith("ll_frozen_check")]
cmd = ["cbmc", gb, "--function", q.entry, "--unwind", str(q.unwind), "--object-bits", "12", "--no-malloc-may-fail", "--drop-unused-functions"]
if sets: cmd += ["--unwindset", ",".join(sets)]
cmd += (["--no-standard-checks"] if tag == "w" else ["--unwinding-assertions", "--no-undefined-shift-check", "--no-signed-overflow-check"]) + q.cbmc_flags + sys.argv[4:]
os.execvp(cmd[0], cmd)
