// Shared by all harnesses.  Compiled by clang++ to IR (cbmc route) or natively (-DVH_NATIVE, replay route).
#pragma once
#include <stdint.h>
#include <stddef.h>
#include <stdlib.h>
#include <string.h>

extern "C" {
uint8_t  nondet_u8(void);
uint16_t nondet_u16(void);
uint32_t nondet_u32(void);
uint64_t nondet_u64(void);
int32_t  nondet_i32(void);
float    nondet_float(void);
void __CPROVER_assume(bool);
void __CPROVER_assert(bool, const char *);
}
#define ASSUME(c) __CPROVER_assume(c)
#ifdef VH_NOASSERT
#define ASSERT(c, msg) ((void)(c))
#else
#define ASSERT(c, msg) __CPROVER_assert((c), "PROP: " msg)
#endif
// reachability witness: the -DWITNESS twin must come back violated
#ifdef WITNESS
#define VH_END() __CPROVER_assert(false, "WITNESS")
#else
#define VH_END() ((void)0)
#endif
#define VH_ENTRY extern "C" __attribute__((noinline)) void

// typed allocation: inlined so that the malloc result is cast to T* at the call site and ll2c can give cbmc a typed object
#ifdef VH_NATIVE
template <class T> static inline T *vh_typed_alloc(T *, size_t n) { return (T *)malloc(sizeof(T) * n); }
#else
template <class T> T *vh_typed_alloc(T *, size_t n);      // no body: ll2c turns the call into (T*)malloc(sizeof(T) * n)
#endif
template <class T> static inline __attribute__((always_inline)) T *vh_new(size_t n = 1) {
  T *p = vh_typed_alloc((T *)0, n);
  ASSUME(p != 0);
  return p;
}
// "n bytes from p may be read": decided by cbmc's object bounds; the native replay reads them so that ASan reports the region
#ifdef VH_NATIVE
static inline bool vh_readable(const void *p, size_t n) { volatile uint8_t s = 0; for (size_t i = 0; i < n; ++i) s = s + ((const volatile uint8_t *)p)[i]; (void)s; return true; }
#else
extern "C" bool __CPROVER_r_ok(const void *, size_t);
#define vh_readable(p, n) __CPROVER_r_ok((p), (n))
#endif
static inline bool nondet_bool() { return nondet_u8() & 1; }
// exact-size heap buffer with arbitrary contents
static inline uint8_t *vh_bytes(size_t n) {
  uint8_t *p = (uint8_t *)malloc(n ? n : 1);
  ASSUME(p != 0);
  for (size_t i = 0; i < n; ++i) p[i] = nondet_u8();
  return p;
}
