// C01: GlyphCache::Loader::read_glyph - the glyph attribute runs of one glyph read from arbitrary Glat bytes through arbitrary Gloc offsets.
// Both tables are exact-size heap objects; the Glat version (run-header width) is given by the query; the TrueType half (glyf/hmtx) is switched
// off here (decided by ttf.cpp).  No access outside the two tables, whatever run lengths and offsets the bytes announce; an accepted glyph has
// at most numAttrs attributes.
#include "common.h"
#include "inc/Main.h"
#include "inc/Face.h"
#include "inc/GlyphCache.h"
#include "inc/GlyphFace.h"
using namespace graphite2;
#ifndef GLEN
#define GLEN 10
#endif
#ifndef GVER
#define GVER 1            /* 1: byte run headers; 2: 16-bit run headers; 3: 16-bit run headers behind an octabox block */
#endif
#ifndef LONGFMT
#define LONGFMT 0
#endif
#define LLEN (8 + (LONGFMT ? 8 : 4))
struct vh_loader { Face::Table _head, _hhea, _hmtx, _glyf, _loca, m_pGlat, m_pGloc; bool _long_fmt, _has_boxes; unsigned short _num_glyphs_graphics, _num_glyphs_attributes, _num_attrs; };
extern "C" const GlyphFace *vh_read_glyph(const vh_loader *self, unsigned short gid, GlyphFace *g, int *numsubs) asm("_ZNK9graphite210GlyphCache6Loader10read_glyphEtRNS_9GlyphFaceEPi");
VH_ENTRY vh_readglyph() {
  Face *f = vh_new<Face>(); memset((void *)f, 0, sizeof(Face));
  vh_loader *l = vh_new<vh_loader>(); memset((void *)l, 0, sizeof(vh_loader));
  uint8_t *glat = vh_bytes(GLEN), *gloc = vh_bytes(LLEN);
  glat[0] = 0; glat[1] = GVER; glat[2] = 0; glat[3] = 0;                       // Glat version word
#if GVER >= 2     /* 16-bit attribute numbers and run lengths: high bytes 0 (the key range sizes the sparse array's allocation); to know which bytes are
                     high bytes the glyph's block starts right behind the version word (its end stays arbitrary) */
  for (unsigned o = 4; o + 1 < GLEN; o += 2) ASSUME(glat[o] == 0);
  if (LONGFMT) { gloc[8] = 0; gloc[9] = 0; gloc[10] = 0; gloc[11] = 4; } else { gloc[8] = 0; gloc[9] = 4; }
#endif
  l->m_pGlat._f = f; l->m_pGlat._p = glat; l->m_pGlat._sz = GLEN;
  l->m_pGloc._f = f; l->m_pGloc._p = gloc; l->m_pGloc._sz = LLEN;
  l->_long_fmt = LONGFMT; l->_num_glyphs_graphics = 0; l->_num_glyphs_attributes = 1; l->_num_attrs = nondet_u8();
  GlyphFace *g = vh_new<GlyphFace>(); memset((void *)g, 0, sizeof(GlyphFace));
  int numsubs = 0;
  const GlyphFace *r = vh_read_glyph(l, 0, g, &numsubs);
  if (r) {
    ASSERT(r == g && bool(g->attrs()), "accepted: the glyph carries an attribute array");
    ASSERT(g->attrs().capacity() <= l->_num_attrs, "accepted: no more attributes than the font declares");
    uint16_t k = nondet_u16();
    (void)g->attrs()[k];                                                     // lookups stay inside the array (sparse lemma)
  }
  VH_END();
}
