// C10 / C13: the directly parsed and the cached cmap lookups agree on every code point (format 4, BMP).
// One cmap table (header, one (3,1) encoding record, a format 4 subtable with NSEG segments incl. the 0xFFFF terminator) is served
// to both DirectCmap and CachedCmap by the table provider; structure bytes are pinned, segment contents are symbolic.
#ifndef NSEG
#define NSEG 2
#endif
#ifdef NGRP        /* format 12 variant: records (3,1) -> a one-segment format 4 subtable (terminator only), (3,10) -> a format 12 subtable with NGRP groups */
#undef NSEG
#define NSEG 1
#define SUBLEN (16 + 8 * NSEG)
#define SUB12 (16 + 12 * NGRP)
#define LEN (20 + SUBLEN + SUB12)
#else
#define SUBLEN (16 + 8 * NSEG)
#define LEN (12 + SUBLEN)
#endif
static unsigned char vh_master[LEN];
#define VH_PIN_BYTES(b) do { for (unsigned i_ = 0; i_ < LEN; ++i_) b[i_] = vh_master[i_]; } while (0)
#include "loader.h"
#include "inc/CmapCache.h"
static inline void w16(unsigned char *p, unsigned v) { p[0] = (unsigned char)(v >> 8); p[1] = (unsigned char)v; }
static inline unsigned r16(const unsigned char *p) { return (p[0] << 8) | p[1]; }

#ifndef NGRP
VH_ENTRY vh_cmap_paths() {
  // table: version 0, 1 subtable; record (3,1) at offset 12
  for (unsigned i = 0; i < LEN; ++i) vh_master[i] = nondet_u8();
  w16(vh_master + 0, 0); w16(vh_master + 2, 1); w16(vh_master + 4, 3); w16(vh_master + 6, 1); w16(vh_master + 8, 0); w16(vh_master + 10, 12);
  unsigned char *st = vh_master + 12;
  w16(st + 0, 4); w16(st + 2, SUBLEN); w16(st + 6, 2 * NSEG);
  unsigned char *endc = st + 14, *startc = endc + 2 * NSEG + 2, *ro = startc + 4 * NSEG;
  // well-formed: sorted disjoint segments, terminator 0xFFFF..0xFFFF mapping to glyph 0 (idDelta 1) as font compilers emit it,
  // delta-mapped segments (no glyphIdArray), at most 3 code points per segment (bounds the cache-fill loop)
  unsigned total = 0;
#ifdef RANGES      /* code-point ranges enumerated by the query list (symbolic ranges: 1100 s with cadical, no verdict in 240 s) */
  { static const unsigned rg[] = {RANGES};
    for (unsigned i = 0; i + 1 < NSEG; ++i) { w16(startc + 2 * i, rg[2 * i]); w16(endc + 2 * i, rg[2 * i + 1]); } }
#endif
  for (unsigned i = 0; i < NSEG; ++i) {
    ASSUME(r16(startc + 2 * i) <= r16(endc + 2 * i) && r16(endc + 2 * i) - r16(startc + 2 * i) <= 3);
    if (i) ASSUME(r16(endc + 2 * (i - 1)) < r16(startc + 2 * i));
    ASSUME(r16(ro + 2 * i) == 0);
    total += r16(endc + 2 * i) - r16(startc + 2 * i) + 1;
  }
  ASSUME(r16(endc + 2 * (NSEG - 1)) == 0xFFFF && r16(startc + 2 * (NSEG - 1)) == 0xFFFF && r16(startc + 2 * NSEG + 2 * (NSEG - 1)) == 1);
  Provider *p = &g_prov;
  p->outstanding = p->handed_out = p->released = 0; p->sealed = false; p->last = 0; p->len = LEN; p->only_tag = 0; p->hdr_word = -1;
  Face *f = vh_raw_face(p, true);
  uint32_t usv = nondet_u32();
  uint16 d, c;
  {
    DirectCmap direct(*f);
    ASSERT(bool(direct), "a well-formed (3,1) format 4 table is accepted by the direct path");
    ASSERT(p->outstanding == 1, "DirectCmap keeps the table until it is destroyed");
    d = direct[usv];
  }
  ASSERT(p->outstanding == 0, "DirectCmap released the table");
  {
    CachedCmap cached(*f);
    ASSERT(bool(cached), "and by the cached path");
    ASSERT(p->outstanding == 0, "CachedCmap has released the table once the cache is filled");
    c = cached[usv];
  }
  ASSERT(d == c, "direct and cached lookups agree on every code point");
  VH_END();
}
#else
static inline void w32(unsigned char *p, uint32_t v) { p[0] = (unsigned char)(v >> 24); p[1] = (unsigned char)(v >> 16); p[2] = (unsigned char)(v >> 8); p[3] = (unsigned char)v; }
// ---- supplementary planes: the format 12 subtable through both paths.  Group ranges are given by the query (GRANGES = s0,e0,s1,e1,..., above
// U+FFFF, ascending, disjoint), start glyph ids are arbitrary.  The cached object is not destroyed here (its destructor walks 0x1100 block pointers;
// the destructor is exercised by the format 4 queries).
VH_ENTRY vh_cmap_paths12() {
  for (unsigned i = 0; i < LEN; ++i) vh_master[i] = nondet_u8();
  w16(vh_master + 0, 0); w16(vh_master + 2, 2);
  w16(vh_master + 4, 3); w16(vh_master + 6, 1); w16(vh_master + 8, 0); w16(vh_master + 10, 20);
  w16(vh_master + 12, 3); w16(vh_master + 14, 10); w16(vh_master + 16, 0); w16(vh_master + 18, 20 + SUBLEN);
  unsigned char *st = vh_master + 20;
  w16(st + 0, 4); w16(st + 2, SUBLEN); w16(st + 6, 2);
  w16(st + 14, 0xFFFF); w16(st + 16, 0); w16(st + 18, 0xFFFF); w16(st + 20, 1); w16(st + 22, 0);      // endCode, pad, startCode, idDelta, idRangeOffset
  unsigned char *t = vh_master + 20 + SUBLEN;
  w16(t + 0, 12); w16(t + 2, 0); w32(t + 4, SUB12); w32(t + 12, NGRP);
  static const uint32_t rg[] = {GRANGES};
  for (unsigned g = 0; g < NGRP; ++g) { w32(t + 16 + 12 * g, rg[2 * g]); w32(t + 16 + 12 * g + 4, rg[2 * g + 1]); }
  Provider *p = &g_prov;
  p->outstanding = p->handed_out = p->released = 0; p->sealed = false; p->last = 0; p->len = LEN; p->only_tag = 0; p->hdr_word = -1;
  Face *f = vh_raw_face(p, true);
  uint32_t usv = nondet_u32();
  ASSUME(usv > 0xFFFF && usv < 0x10FFFF);         // BMP code points are decided by the format 4 queries; U+10FFFF is never cached (DESIGN 9.3)
  uint16 d, c;
  {
    DirectCmap direct(*f);
    ASSERT(bool(direct), "accepted by the direct path");
    d = direct[usv];
  }
  ASSERT(p->outstanding == 0, "DirectCmap released the table");
  CachedCmap *cached = vh_new<CachedCmap>();
  ::new (cached) CachedCmap(*f);
  ASSERT(bool(*cached), "and by the cached path");
  ASSERT(p->outstanding == 0, "CachedCmap has released the table once the cache is filled");
  c = (*cached)[usv];
  ASSERT(d == c, "direct and cached lookups agree on every supplementary-plane code point");
  VH_END();
}
#endif
