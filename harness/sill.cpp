// C18 (language defaults) / C01 (Sill loader on arbitrary bytes).
//  vh_readsill: SillMap::readSill on an arbitrary Sill table of a concrete length (language count pinned: it sizes an allocation) against a
//               face with one 8-bit feature: no access outside the table (the provider's exact-size buffer), table released.
//  vh_clonefeatures: SillMap::cloneFeatures(lang) on a map with NL language records in ANY order: the feature values of the first record with
//               that tag, the font defaults for tag 0 or an unknown tag.
#ifndef LEN
#define LEN 20
#endif
#ifndef NL
#define NL 1
#endif
#define VH_PIN_BYTES(b) do { if (LEN >= 6) { b[0] = 0; b[1] = 1; b[2] = 0; b[3] = 0; b[4] = 0; b[5] = NL; } } while (0)
#include "loader.h"
#include "inc/FeatureMap.h"
#include "inc/FeatureVal.h"
static void one_feature_map(Face *f, FeatureMap &map) {
  unsigned short bits = 0;
  FeatureRef *fr = vh_new<FeatureRef>(1);
  ::new (fr) FeatureRef(*f, bits, 255, 1, 0, FeatureRef::flags_t(0), 0, 0);          // feature id 1 (the language feature), values 0..255
  NameAndFeatureRef *nf = vh_new<NameAndFeatureRef>(1);
  nf[0].m_name = 1; nf[0].m_pFRef = fr;
  map.m_feats = fr; map.m_numFeats = 1; map.m_pNamedFeats = nf;
  uint32 *w = vh_new<uint32>(1); w[0] = nondet_u32() & 0xff;
  map.m_defaultFeatures.m_first = w; map.m_defaultFeatures.m_last = map.m_defaultFeatures.m_end = w + 1; map.m_defaultFeatures.m_pMap = &map;
}
VH_ENTRY vh_readsill() {
  Provider *p = &g_prov;
  p->outstanding = p->handed_out = p->released = 0; p->sealed = false; p->last = 0; p->len = LEN; p->only_tag = 0; p->hdr_word = -1;
  Face *f = vh_raw_face(p, true);
  SillMap &sm = f->m_Sill;
  one_feature_map(f, sm.m_FeatureMap);
  bool ok = sm.readSill(*f);
  ASSERT(p->outstanding == 0 && p->handed_out == 1 && p->released == 1, "readSill borrows the Sill table once and has released it when it returns");
  if (ok && sm.m_numLanguages) {
    ASSERT(sm.m_numLanguages == NL && sm.m_langFeats != 0, "accepted: one record per announced language");
    for (unsigned i = 0; i < NL; ++i) ASSERT(sm.m_langFeats[i].m_pFeatures != 0, "every language has its feature values");
  }
  VH_END();
}
VH_ENTRY vh_clonefeatures() {
  Provider *p = &g_prov; Face *f = vh_raw_face(p, true);
  SillMap &sm = f->m_Sill;
  one_feature_map(f, sm.m_FeatureMap);
  typedef SillMap::LangFeaturePair LFP;
  LFP *lf = vh_new<LFP>(NL ? NL : 1);
  uint32 langs[NL ? NL : 1], vals[NL ? NL : 1];
  for (unsigned i = 0; i < NL; ++i) {
    Features *fv = vh_new<Features>(); memset((void *)fv, 0, sizeof(Features));
    uint32 *w = vh_new<uint32>(1); vals[i] = w[0] = nondet_u32() & 0xff;
    fv->m_first = w; fv->m_last = fv->m_end = w + 1; fv->m_pMap = &sm.m_FeatureMap;
    langs[i] = lf[i].m_lang = nondet_u32(); lf[i].m_pFeatures = fv;
  }
  sm.m_langFeats = lf; sm.m_numLanguages = NL;
  uint32 want = nondet_u32();
  Features *got = sm.cloneFeatures(want);
  ASSUME(got != 0);
  uint32 ref = sm.m_FeatureMap.m_defaultFeatures.m_first[0]; bool found = false;
  for (unsigned i = 0; i < NL; ++i) if (!found && want != 0 && langs[i] == want) { ref = vals[i]; found = true; }
  ASSERT(got->size() == 1 && (*got)[0] == ref, "language lookup: the values of the first record with that tag, the font defaults otherwise (record order does not matter)");
  VH_END();
}

