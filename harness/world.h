// Direct constructors for bounded Face/Silf/GlyphCache/Segment worlds (DESIGN 2.2, 2.3).
// Everything is built field by field (-fno-access-control) from nondet values; no font loading.
#pragma once
#include "common.h"
#include <new>
#include "inc/Main.h"
#include "inc/Face.h"
#include "inc/Silf.h"
#include "inc/GlyphCache.h"
#include "inc/GlyphFace.h"
#include "inc/Segment.h"
#include "inc/Slot.h"
#include "inc/CharInfo.h"
#include "inc/Rule.h"
#include "inc/Machine.h"
#include "inc/Font.h"
#include "inc/Collider.h"
using namespace graphite2;

#ifndef NS
#define NS 3          // live slots
#endif
#ifndef NSPARE
#define NSPARE 1      // slots on the free list
#endif
#ifndef NG
#define NG 2          // glyphs in the cache
#endif
#ifndef NA
#define NA 4          // glyph attributes per glyph (ids 0..NA-1)
#endif
#ifndef NU
#define NU 1          // user attributes per slot
#endif
#ifndef NC
#define NC NS         // char-infos
#endif
#ifndef FBOUND
#define FBOUND 65536.0f
#endif

// glyph attribute ids used by the directly built Silf
enum { VA_PSEUDO = 0, VA_BREAK = 1, VA_BIDI = 2, VA_MIRROR = 3 };

static inline float nondet_fin(float bound) { float f = nondet_float(); ASSUME(f >= -bound && f <= bound); return f; }
// value on a coarser grid than the lowering's own: a multiple of 1/inv_step (so that products of two such values stay on the grid)
static inline float nondet_grid(float bound, int inv_step) {
  float f = nondet_fin(bound);
  float g = f * (float)inv_step;
  ASSUME(g == (float)(int)g);
  return f;
}
static inline Position nondet_gpos(float bound, int inv_step) { return Position(nondet_grid(bound, inv_step), nondet_grid(bound, inv_step)); }
static inline Position nondet_pos(float bound) { return Position(nondet_fin(bound), nondet_fin(bound)); }

struct VhAttr { uint16 first, second; };

// ---- frozen-world instrumentation (DESIGN 2.5): with ll2c --frozen every store / memcpy destination / free in LIBRARY code calls
// ll_frozen_check(p) first; the harness registers the objects that make up the shared face (and font) here.
#ifdef VH_FROZEN
extern "C" bool __CPROVER_same_object(const void *, const void *);
enum { VH_MAXFROZEN = 28 };
static const void *vh_frozen[VH_MAXFROZEN]; static unsigned vh_nfrozen = 0;
static inline void vh_freeze(const void *p) { if (vh_nfrozen < VH_MAXFROZEN) vh_frozen[vh_nfrozen++] = p; }
extern "C" void ll_frozen_check(uint8_t *p) {
  for (unsigned i = 0; i < VH_MAXFROZEN; ++i)
    if (i < vh_nfrozen) __CPROVER_assert(!__CPROVER_same_object(p, vh_frozen[i]), "PROP: library code writes to (or frees) an object owned by the shared face/font");
}
#else
static inline void vh_freeze(const void *) {}
#endif

struct World {
  Face *face; Silf *silf; GlyphCache *gc; const GlyphFace **glyphs;
  Segment *seg; Slot *sl[NS + NSPARE ? NS + NSPARE : 1]; CharInfo *ci;
};

// Glyph attributes: the sparse array is laid out directly (one chunk, keys 0..NA-1 present, values symbolic) - the shape the
// sparse constructor produces for NA consecutive non-zero attributes; lookups still go through the real sparse::operator[].
static inline GlyphFace *vh_glyphface() {
  GlyphFace *g = vh_new<GlyphFace>();
  g->m_bbox = Rect(nondet_pos(FBOUND), nondet_pos(FBOUND));
  g->m_advance = Position(nondet_fin(FBOUND), 0.f);
  const unsigned hdr = sizeof(sparse::chunk) / sizeof(uint16);
  uint16 *vals = vh_new<uint16>(hdr + NA);
  sparse::chunk *c = reinterpret_cast<sparse::chunk *>(vals);
  c->mask = ((1UL << NA) - 1) << (sparse::SIZEOF_CHUNK - NA);
  c->offset = hdr;
  for (unsigned k = 0; k < NA; ++k) vals[hdr + k] = nondet_u16();
  g->m_attrs.m_array.values = vals;
  g->m_attrs.m_nchunks = 1;
  return g;
}

static inline void vh_make_face(World &w) {
  // raw storage, no constructor: referencing Face's vtable would pull the whole library into the cone
  Face *face = vh_new<Face>();
  memset((void *)face, 0, sizeof(Face));
  w.face = face;
  // glyph cache, preloaded state (no loader)
  GlyphCache *gc = vh_new<GlyphCache>();
  *const_cast<Rect *>(&gc->_empty_slant_box) = Rect();
  gc->_glyph_loader = 0;
  const GlyphFace **glyphs = vh_new<const GlyphFace *>(NG);
  for (unsigned i = 0; i < NG; ++i) glyphs[i] = vh_glyphface();
  gc->_glyphs = glyphs;
  gc->_boxes = 0;
  gc->_num_glyphs = NG; gc->_num_attrs = NA; gc->_upem = 1024;
  face->m_pGlyphFaceCache = gc;
  w.gc = gc; w.glyphs = glyphs;
  // one Silf, no passes
  Silf *silf = vh_new<Silf>();
  ::new (silf) Silf();
  w.silf = silf;
  w.silf->m_aUser = NU; w.silf->m_aPseudo = VA_PSEUDO; w.silf->m_aBreak = VA_BREAK; w.silf->m_aBidi = VA_BIDI; w.silf->m_aMirror = VA_MIRROR;
  w.silf->m_aPassBits = 0; w.silf->m_aCollision = 0; w.silf->m_numPasses = 0; w.silf->m_numJusts = 0; w.silf->m_justs = 0;
  w.silf->m_dir = nondet_u8(); w.silf->m_flags = nondet_u8();
  face->m_silfs = silf; face->m_numSilf = 1;
  // the face and everything reachable from it is shared state: frozen (preloaded configuration: no loader, nothing left to fill in)
  vh_freeze(face); vh_freeze(gc); vh_freeze(glyphs); vh_freeze(silf);
  for (unsigned i = 0; i < NG; ++i) { vh_freeze(glyphs[i]); vh_freeze(glyphs[i]->m_attrs.m_array.values); }
}

// Segment with NS live slots S[0..NS-1] linked in array order and NSPARE slots on the free list.
// (The code under test compares slot addresses only for equality, so array order = stream order loses no generality.)
static inline void vh_make_segment(World &w) {
  Segment *seg = vh_new<Segment>();
  memset((void *)seg, 0, sizeof(Segment));
  seg->m_face = w.face; seg->m_silf = w.silf;
  seg->m_numGlyphs = NS; seg->m_numCharinfo = NC; seg->m_bufSize = 2;
  seg->m_dir = (int8)nondet_u8(); seg->m_flags = 0; seg->m_passBits = 0; seg->m_defaultOriginal = 0;
  seg->m_advance = Position(0, 0);
  CharInfo *ci = vh_new<CharInfo>(NC ? NC : 1);
  for (unsigned i = 0; i < NC; ++i) { ::new (ci + i) CharInfo(); ci[i].init(nondet_u32()); ci[i].base(i); }
  seg->m_charinfo = ci; w.ci = ci;
  const unsigned total = NS + NSPARE;
  // every slot is its own heap object (pointers into it always have a constant offset: far cheaper for the solver than one array)
  for (unsigned i = 0; i < total; ++i) {
    Slot *s = vh_new<Slot>();
    int16 *ua = vh_new<int16>(NU ? NU : 1);
    ::new (s) Slot(ua);
    for (unsigned k = 0; k < NU; ++k) ua[k] = (int16)nondet_u16();
    w.sl[i] = s;
  }
  for (unsigned i = 0; i < NS; ++i) {
    Slot &s = *w.sl[i];
    s.m_next = i + 1 < NS ? w.sl[i + 1] : 0;
    s.m_prev = i ? w.sl[i - 1] : 0;
    s.m_glyphid = nondet_u16(); s.m_realglyphid = nondet_u16();
    s.m_original = nondet_u32(); s.m_before = nondet_u32(); s.m_after = nondet_u32();
    ASSUME(s.m_original < NC && s.m_before < NC && s.m_after < NC);      // INV_assoc
    s.m_index = i;
    s.m_flags = nondet_u8() & 0x1a;                                     // stream slots are neither DELETED nor COPIED (both flags exist only inside one rule, off the stream)
    s.m_attLevel = nondet_u8(); s.m_bidiCls = (int8)nondet_u8(); s.m_bidiLevel = nondet_u8();
  }
  for (unsigned i = NS; i < total; ++i) w.sl[i]->m_next = i + 1 < total ? w.sl[i + 1] : 0;
  seg->m_first = NS ? w.sl[0] : 0;
  seg->m_last = NS ? w.sl[NS - 1] : 0;
  seg->m_freeSlots = NSPARE ? w.sl[NS] : 0;
  w.seg = seg;
}

static inline void vh_slot_floats(World &w) {
  for (unsigned i = 0; i < NS; ++i) {
    Slot &s = *w.sl[i];
    s.m_position = nondet_pos(FBOUND); s.m_shift = nondet_pos(FBOUND); s.m_advance = nondet_pos(FBOUND);
    s.m_attach = nondet_pos(FBOUND); s.m_with = nondet_pos(FBOUND); s.m_just = nondet_fin(FBOUND);
  }
}

// Arbitrary attachment forest over the live slots: symbolic parent vector made acyclic by a symbolic rank;
// child/sibling chains list the children of each parent in index order.
static inline void vh_make_forest(World &w) {
  int par[NS ? NS : 1];
#ifdef FORESTV
  // parent vector enumerated concretely by the query list (all (n+1)^(n-1) labelled forests for small n):
  // a symbolic parent vector makes every slot pointer a case split over all slots and gives no verdict in 240 s even at n=2
  static const int forestv[] = {FORESTV};
  static_assert(sizeof(forestv) / sizeof(int) >= (NS ? NS : 1), "FORESTV has one parent per slot");
  for (unsigned i = 0; i < NS; ++i) par[i] = forestv[i];
#else
  uint8_t rank[NS ? NS : 1];
  for (unsigned i = 0; i < NS; ++i) {
    uint8_t p = nondet_u8(); rank[i] = nondet_u8();
    ASSUME(p <= NS && p != i && rank[i] < NS);
    par[i] = p == NS ? -1 : (int)p;
  }
  for (unsigned i = 0; i < NS; ++i) if (par[i] >= 0) ASSUME(rank[par[i]] < rank[i]);
#endif
  for (unsigned i = 0; i < NS; ++i) {
    Slot &s = *w.sl[i];
    s.m_parent = par[i] >= 0 ? w.sl[par[i]] : 0;
    s.m_child = 0; s.m_sibling = 0;
  }
  for (unsigned i = 0; i < NS; ++i) {
    if (par[i] < 0) continue;
    Slot &p = *w.sl[par[i]];
    if (!p.m_child) p.m_child = w.sl[i];
    else { Slot *c = p.m_child; for (unsigned k = 0; k < NS && c->m_sibling; ++k) c = c->m_sibling; c->m_sibling = w.sl[i]; }
  }
}

static __attribute__((noinline)) bool vh_in_slots(const World &w, const Slot *s) {
  for (unsigned i = 0; i < NS + NSPARE; ++i) if (w.sl[i] == s) return true;
  return false;
}
