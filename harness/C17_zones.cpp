// C17(a): the interval set searched by the collision fixer stays sorted, disjoint, inside its bounds, and never offers an excluded position
#include "common.h"
#include <iterator>
#include "inc/Intervals.h"
using namespace graphite2;
#ifndef K
#define K 2            /* exclusions in the pre-state */
#endif
#ifndef FB
#define FB 1048576.0f
#endif
static inline float fin() { float f = nondet_float(); ASSUME(f >= -FB && f <= FB); return f; }

struct Snap { float x[K + 4], xm[K + 4]; unsigned n; };

static __attribute__((noinline)) bool inv_zones(const Zones &z) {
  const Zones::Exclusion *b = z._exclusions.begin(), *e = z._exclusions.end();
  size_t n = e - b;
  if (n > K + 3) return false;
  if (!(z._pos <= z._posm)) return false;
  for (size_t i = 0; i < n && i < K + 4; ++i) {
    if (!(b[i].x < b[i].xm)) return false;                       // non-empty, no NaN
    if (!(b[i].x >= z._pos && b[i].xm <= z._posm)) return false;   // inside the bounds
    if (i + 1 < n && !(b[i].xm <= b[i + 1].x)) return false;      // sorted and disjoint
  }
  return true;
}
static __attribute__((noinline)) bool covered(const Zones &z, float t) {
  const Zones::Exclusion *b = z._exclusions.begin(); size_t n = z._exclusions.size();
  for (size_t i = 0; i < n && i < K + 4; ++i) if (b[i].x <= t && t <= b[i].xm) return true;
  return false;
}
static __attribute__((noinline)) bool covered_snap(const Snap &s, float t) {
  for (unsigned i = 0; i < s.n && i < K + 4; ++i) if (s.x[i] <= t && t <= s.xm[i]) return true;
  return false;
}

// storage of the exclusion vector: a static array (capacity 8, what Zones() reserves) so that cbmc tracks each element separately
// (a heap array with symbolic indices runs the solver out of memory at K=1)
static void make_zones(Zones *z, Snap &s) {
  z->_exclusions.m_first = vh_new<Zones::Exclusion>(8);
  z->_exclusions.m_last = z->_exclusions.m_first + K;
  z->_exclusions.m_end = z->_exclusions.m_first + 8;
  z->_margin_len = fin(); z->_margin_weight = fin(); z->_pos = fin(); z->_posm = fin();
  for (unsigned i = 0; i < K; ++i) {
    Zones::Exclusion &e = z->_exclusions.m_first[i];
    e.x = fin(); e.xm = fin(); e.c = fin(); e.sm = fin(); e.smx = fin(); e.open = nondet_u8() & 1;
    s.x[i] = e.x; s.xm[i] = e.xm;
  }
  s.n = K;
}

VH_ENTRY vh_remove() {
  Zones *z = vh_new<Zones>(); Snap s; make_zones(z, s);
  ASSUME(inv_zones(*z));
  float x = fin(), xm = fin(), t = fin();
  z->remove(x, xm);
  ASSERT(inv_zones(*z), "remove: exclusions stay sorted, disjoint, non-empty and inside the bounds");
  bool was = covered_snap(s, t), now = covered(*z, t);
  if (x < xm) {
    if (now) ASSERT(was && !(t > x && t < xm), "remove: no new free position, and nothing inside the removed interval is offered");
    if (was && (t < x || t > xm)) ASSERT(now, "remove: positions outside the removed interval stay available");
  } else ASSERT(now == was, "empty removal changes nothing");
  VH_END();
}

VH_ENTRY vh_insert() {
  Zones *z = vh_new<Zones>(); Snap s; make_zones(z, s);
  ASSUME(inv_zones(*z));
  Zones::Exclusion e(fin(), fin(), fin(), fin(), fin());
  e.open = nondet_u8() & 1;
  float t = fin();
  z->insert(e);
  ASSERT(inv_zones(*z), "weighted insert: exclusions stay sorted, disjoint, non-empty and inside the bounds");
  ASSERT(covered(*z, t) == covered_snap(s, t), "weighted insert changes costs only: the set of available positions is unchanged");
  VH_END();
}

VH_ENTRY vh_closest() {
  Zones *z = vh_new<Zones>(); Snap s; make_zones(z, s);
  ASSUME(inv_zones(*z));
  float origin = fin(), cost = 0;
  float r = z->closest(origin, cost);
  if (!(cost == -1.f)) ASSERT(covered(*z, r), "closest: a position with a cost lies inside some available interval (never NaN, never excluded)");
  if (K == 0) ASSERT(cost == -1.f, "no interval: no position");
  VH_END();
}

VH_ENTRY vh_initialise() {
  Zones *z = vh_new<Zones>(); Snap s; make_zones(z, s);
  float lo = fin(), hi = fin();
  ASSUME(lo < hi);
  z->initialise<XY>(lo, hi, fin(), fin(), fin());
  ASSERT(inv_zones(*z) && z->_exclusions.size() == 1 && z->_pos == lo && z->_posm == hi, "initialise establishes one interval covering the bounds");
  VH_END();
}
