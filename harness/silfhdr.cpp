// C01: Silf::readGraphite (sub-table header, justification levels, pseudo map, pass offsets) on arbitrary bytes of a concrete length.
// The counts that move later fields or size allocations (justification levels, critical features, script tags, passes, pseudo entries)
// are pinned by the query; every other byte is arbitrary.  Silf::readClassMap and Pass::readPass are replaced by stubs that assert what
// the real ones rely on - their byte range lies inside the sub-table (they are decided on exact-size buffers by silfload.cpp/passload.cpp).
#ifndef LEN
#define LEN 40
#endif
#ifndef VER3
#define VER3 0
#endif
#ifndef NJ
#define NJ 0
#endif
#ifndef NC
#define NC 0
#endif
#ifndef NT
#define NT 0
#endif
#ifndef NP
#define NP 0
#endif
#ifndef NPS
#define NPS 0
#endif
#include <stdio.h>
#include "loader.h"
#include "inc/GlyphCache.h"
#include "inc/Silf.h"
#include "inc/Pass.h"
#include "inc/Error.h"
#define HDR0 (VER3 ? 8 : 0)
#define Q0 (HDR0 + 20 + 8 * NJ)
#define O_NCRIT (Q0 + 9)
#define O_NTAGS (Q0 + 11 + 2 * NC)
#define O_NPSEUDO (Q0 + 18 + 2 * NC + 4 * NT + 4 * NP)

extern "C" size_t vh_stub_readclassmap(Silf *self, const byte *p, size_t data_len, uint32 version, Error *e) asm("_ZN9graphite24Silf12readClassMapEPKhmjRNS_5ErrorE");
size_t vh_stub_readclassmap(Silf *, const byte *p, size_t data_len, uint32, Error *e) {
  ASSERT(vh_readable(p, data_len), "readClassMap is handed a byte range inside the Silf sub-table");
  if (nondet_bool()) { e->error(E_BADCLASSSIZE); return 0xFFFFFFFFu; }
  return nondet_u32();
}
extern "C" bool vh_stub_readpass(Pass *self, const byte *pass_start, size_t pass_length, size_t subtable_base, Face *face, int pt, uint32 version, Error *e)
    asm("_ZN9graphite24Pass8readPassEPKhmmRNS_4FaceENS_8passtypeEjRNS_5ErrorE");
bool vh_stub_readpass(Pass *, const byte *pass_start, size_t pass_length, size_t, Face *, int pt, uint32, Error *) {
  ASSERT(vh_readable(pass_start, pass_length), "readPass is handed a byte range inside the Silf sub-table");
  ASSERT(pt >= PASS_TYPE_LINEBREAK && pt <= PASS_TYPE_JUSTIFICATION, "pass type derived from the pass index");
  return nondet_bool();
}

VH_ENTRY vh_silf_header() {
  Provider *pr = &g_prov; Face *f = vh_raw_face(pr, true);
  GlyphCache *gc = vh_new<GlyphCache>(); memset((void *)gc, 0, sizeof(GlyphCache));
  gc->_num_glyphs = nondet_u16(); gc->_num_attrs = nondet_u16(); gc->_upem = nondet_u16();
  f->m_pGlyphFaceCache = gc;
  Silf *s = vh_new<Silf>(); memset((void *)s, 0, sizeof(Silf));
  uint8_t *b = vh_bytes(LEN);
  if (HDR0 + 6 < LEN) b[HDR0 + 6] = NP;
  if (HDR0 + 19 < LEN) b[HDR0 + 19] = NJ;
  if (O_NCRIT < LEN) b[O_NCRIT] = NC;
  if (O_NTAGS < LEN) b[O_NTAGS] = NT;
  if (O_NPSEUDO + 1 < LEN) { b[O_NPSEUDO] = 0; b[O_NPSEUDO + 1] = NPS; }
  uint32 version = nondet_u32();
  ASSUME(VER3 ? version >= 0x00030000 : version < 0x00030000);
  bool ok = s->readGraphite(b, LEN, *f, version);
  if (ok) {
    ASSERT(version < 0x00060000, "accepted: a known Silf version");
    const size_t na = gc->_num_attrs;
    ASSERT(s->m_aPseudo < na && s->m_aBreak < na && s->m_aBidi < na && s->m_aMirror < na, "accepted: glyph attribute numbers exist");
    ASSERT(s->m_numPasses == NP && s->m_sPass <= s->m_pPass && s->m_pPass <= s->m_jPass && s->m_jPass <= s->m_numPasses, "accepted: pass phases ordered inside the pass count");
    ASSERT(s->m_bPass == 0xFF || (s->m_bPass >= s->m_jPass && s->m_bPass <= s->m_numPasses), "accepted: bidi pass position");
#ifdef VH_DEBUG_PRINT
    printf("aLig %u numPseudo %u numJusts %u numPasses %u\n", s->m_aLig, s->m_numPseudo, s->m_numJusts, s->m_numPasses);
#endif
    ASSERT(s->m_aLig <= 127 && s->m_numPseudo == NPS && s->m_numJusts == NJ, "accepted: ligature attribute and counts as announced");
#ifdef REACH_ACCEPT
    VH_END();
#endif
  }
#ifndef REACH_ACCEPT
  VH_END();
#endif
}
