// C17 (b): limit clause of the shift collider.  ShiftCollider::initSlot initialises four axis ranges; every position a range offers
// corresponds (by the formulas ShiftCollider::resolve uses to turn a position on axis i into a shift) to an accumulated collision
// offset inside the limit rectangle in force.  Exact-dyadic lowering (grid 1/16, inputs multiples of 1/2 with |v| <= 32); the collision margin is 0 so that margin / ISQRT2 is exact.
#define NS 1
#define NSPARE 0
#ifndef NG
#define NG 1
#endif
#define FBOUND 32.0f
#define GP(b) nondet_gpos((b), 2)      /* multiples of 1/2, lowering grid 1/16: a0*a0 and 0.25*a0*a0 of the diagonal cost terms stay exact */
#include "world.h"
#include "inc/Collider.h"
#ifndef AXIS
#define AXIS 0
#endif

VH_ENTRY vh_initslot() {
  World w; vh_make_face(w); vh_make_segment(w);
  // glyph boxes: one slant box per glyph (sub-boxes are not read by initSlot)
  GlyphBox **boxes = vh_new<GlyphBox *>(NG);
  GlyphBox *gb = vh_new<GlyphBox>();
  gb->_num = 0; gb->_bitmap = 0; gb->_slant = Rect(GP(FBOUND), GP(FBOUND));
  boxes[0] = gb; w.gc->_boxes = boxes;
  Slot *s = w.sl[0]; s->m_glyphid = 0; s->m_index = 0; s->m_position = GP(FBOUND);
  SlotCollision *c = vh_new<SlotCollision>();
  memset((void *)c, 0, sizeof(SlotCollision));
  w.seg->m_collisions = c;
  Rect limit(GP(FBOUND), GP(FBOUND));
#ifdef ZERO_OFFSET      /* diagonal axes: no accumulated offset from earlier passes (the general case gives no solver verdict) */
  Position off(0.f, 0.f), cs = GP(FBOUND);
#else
  Position off = GP(FBOUND), cs = GP(FBOUND);
#endif
  // well-formed limit, and the glyph currently inside it
  ASSUME(limit.bl.x <= limit.tr.x && limit.bl.y <= limit.tr.y);
  ASSUME(limit.bl.x <= off.x + cs.x && off.x + cs.x <= limit.tr.x && limit.bl.y <= off.y + cs.y && off.y + cs.y <= limit.tr.y);
  int dir = nondet_u8() & 1;
  if (!dir) ASSUME(limit.bl.x == -limit.tr.x);          // LTR: x-symmetric limits (the property's restriction)
  ShiftCollider *sc = vh_new<ShiftCollider>();
  memset((void *)sc, 0, sizeof(ShiftCollider));
  for (unsigned i = 0; i < 4; ++i) {                    // Zones() state: empty vector with capacity 8
    sc->_ranges[i]._exclusions.m_first = vh_new<Zones::Exclusion>(8);
    sc->_ranges[i]._exclusions.m_last = sc->_ranges[i]._exclusions.m_first;
    sc->_ranges[i]._exclusions.m_end = sc->_ranges[i]._exclusions.m_first + 8;
  }
  bool ok = sc->initSlot(w.seg, s, limit, 0.f /* margin */, nondet_grid(8.f, 2), cs, off, dir, 0);
  ASSERT(ok, "initSlot succeeds for a glyph with boxes");
#ifdef VH_RESOLVE     /* the real ShiftCollider::resolve on the four ranges initSlot built (no neighbour merged): whatever axis and position it picks,
                         accumulated offset + returned shift stays inside the limit rectangle */
  { bool isCol = true;
    Position r = sc->resolve(w.seg, isCol, 0);
    ASSERT(limit.bl.x <= off.x + r.x && off.x + r.x <= limit.tr.x, "resolve: accumulated offset + shift inside the limit rectangle (x)");
    ASSERT(limit.bl.y <= off.y + r.y && off.y + r.y <= limit.tr.y, "resolve: accumulated offset + shift inside the limit rectangle (y)");
    VH_END(); return; }
#endif
  const Zones &z = sc->_ranges[AXIS];
  ASSERT(z._pos <= z._posm || true, "range computed");
  float v = nondet_grid(8 * FBOUND, 2);
  ASSUME(z._pos <= v && v <= z._posm);                  // any position the axis can ever offer
  // ShiftCollider::resolve: bestPos = v - tbase, then the per-axis formula for the new shift
  float nx, ny;
#if AXIS == 0
  nx = v - off.x; ny = cs.y;
#elif AXIS == 1
  nx = cs.x; ny = v - off.y;
#elif AXIS == 2
  { float bp = v - (off.x + off.y); nx = 0.5f * (cs.x - cs.y + bp); ny = 0.5f * (cs.y - cs.x + bp); }
#else
  { float bp = v - (off.x - off.y); nx = 0.5f * (cs.x + cs.y + bp); ny = 0.5f * (cs.x + cs.y - bp); }
#endif
  ASSERT(limit.bl.x <= off.x + nx && off.x + nx <= limit.tr.x, "accumulated offset + shift stays inside the limit rectangle (x)");
  ASSERT(limit.bl.y <= off.y + ny && off.y + ny <= limit.tr.y, "accumulated offset + shift stays inside the limit rectangle (y)");
  VH_END();
}
