// C17 (b/c, the step from a vetted position to the shift): ShiftCollider::resolve with Zones::closest replaced by a stub that offers, on each axis,
// an arbitrary position with an arbitrary cost (or none).  For the axis that wins, the returned shift must put the glyph exactly AT the position the
// interval set of that axis vetted, moving along that axis only.  In geometric terms (o = accumulated offset, c = current shift, r = result):
//   x axis:    o.x + r.x == p               and r.y == c.y
//   y axis:    o.y + r.y == p               and r.x == c.x
//   sum axis:  (o.x + r.x) + (o.y + r.y) == p   and r.x - r.y == c.x - c.y
//   diff axis: (o.x + r.x) - (o.y + r.y) == p   and r.x + r.y == c.x + c.y
// Inputs are multiples of 1/2 with |v| <= 64, so every IEEE operation involved is exact and the equalities are exact.
#define NS 1
#define NSPARE 0
#define NG 1
#define FBOUND 64.0f
#ifndef WINAXIS
#define WINAXIS 0
#endif
#include "world.h"
#include "inc/Collider.h"
static float vh_p[4], vh_c[4]; static const Zones *vh_z0;
extern "C" float vh_stub_closest(const Zones *self, float origin, float *cost) asm("_ZNK9graphite25Zones7closestEfRf");
float vh_stub_closest(const Zones *self, float, float *cost) { unsigned i = (unsigned)(self - vh_z0); if (i > 3) i = 3; *cost = vh_c[i]; return vh_p[i]; }
VH_ENTRY vh_resolve_axis() {
  World w; vh_make_face(w); vh_make_segment(w);
  ShiftCollider *sc = vh_new<ShiftCollider>(); memset((void *)sc, 0, sizeof(ShiftCollider));
  vh_z0 = &sc->_ranges[0];
  sc->_target = w.sl[0];
#if WINAXIS >= 2      /* diagonal axes: 5-bit inputs (the exactness argument over four chained float additions is what costs solver time) */
#ifndef HBITS
#define HBITS 5
#endif
#define HALF() (0.5f * (float)((int)(nondet_u8() & ((1 << HBITS) - 1)) - (1 << (HBITS - 1))))
#else
#define HALF() (0.5f * (float)(int8_t)nondet_u8())          /* multiples of 1/2 in [-64, 63.5], built from an 8-bit integer (exact) */
#endif
  const Position o(HALF(), HALF()), c(HALF(), HALF());
  sc->_currOffset = o; sc->_currShift = c;
  for (unsigned i = 0; i < 4; ++i) { vh_p[i] = HALF() + HALF(); vh_c[i] = -1.f; }
  vh_c[WINAXIS] = (float)nondet_u8();                     // the query says which axis offers the only position; its cost is arbitrary
  { uint8_t other = nondet_u8() & 3; if (other > WINAXIS) vh_c[other] = vh_c[WINAXIS] + (float)(nondet_u8() & 7); }      // a later axis may offer one too, but not a cheaper one
  bool isCol = true;
  Position r = sc->resolve(w.seg, isCol, 0);
  // the winner: first axis whose cost beats the best so far by more than 0.01
  int win = -1; float best = 0;
  for (int i = 0; i < 4; ++i) if (vh_c[i] >= 0.f && (win < 0 || vh_c[i] < best - 0.01f)) { win = i; best = vh_c[i]; }
  bool any = vh_c[0] >= 0.f || vh_c[1] >= 0.f || vh_c[2] >= 0.f || vh_c[3] >= 0.f;
  ASSERT(isCol == !any, "'still colliding' exactly when no axis offers a position");
  if (win == 0) ASSERT(o.x + r.x == vh_p[0] && r.y == c.y, "x axis: the glyph lands on the vetted position, y unchanged");
  if (win == 1) ASSERT(o.y + r.y == vh_p[1] && r.x == c.x, "y axis: the glyph lands on the vetted position, x unchanged");
  if (win == 2) ASSERT((o.x + r.x) + (o.y + r.y) == vh_p[2] && r.x - r.y == c.x - c.y, "sum axis: lands on the vetted diagonal position, moving along that diagonal only");
  if (win == 3) ASSERT((o.x + r.x) - (o.y + r.y) == vh_p[3] && r.x + r.y == c.x + c.y, "diff axis: lands on the vetted diagonal position, moving along that diagonal only");
  if (win < 0) ASSERT(r.x == 0.f && r.y == 0.f, "no position: zero shift");
  VH_END();
}
