// C05(a) / C12 / C11 (segment-level encoding clause): Segment::read_text on exact-size buffers.
// gr_make_seg = new Segment(nChars,...) ; read_text ; runGraphite ; finalise - the text is consumed by read_text only.
#ifndef LEN
#define LEN 2          /* code units before the NUL */
#endif
#ifndef EXTRA
#define EXTRA 0        /* nChars = LEN + EXTRA: the caller passes the code-unit count (as the manual recommends) or over-estimates */
#endif
#define NCH (LEN + EXTRA)
#define NS 0
#define NSPARE (NCH + 1)
#define NC (NCH ? NCH : 1)
#include "world.h"
#include "utfref.h"
#include "inc/CmapCache.h"
#include "inc/UtfCodec.h"
#include "graphite2/Segment.h"
#ifndef ENC
#define ENC 8
#endif
#if ENC == 8
typedef uint8_t unit_t;
#define REF ref_utf8
#define GRENC gr_utf8
#elif ENC == 16
typedef uint16_t unit_t;
#define REF ref_utf16
#define GRENC gr_utf16
#else
typedef uint32_t unit_t;
#define REF ref_utf32
#define GRENC gr_utf32
#endif
static unit_t nondet_unit() {
#if ENC == 8
  return nondet_u8();
#elif ENC == 16
  return nondet_u16();
#else
  return nondet_u32();
#endif
}

// arbitrary character-to-glyph map (the cmap is not the subject here)
struct VhCmap : public Cmap {
  virtual uint16 operator[](const uint32) const throw() { return nondet_u16(); }
  virtual operator bool() const throw() { return true; }
};

// NUL-terminated text in a buffer that ends exactly at the NUL; nChars = characters before the NUL + EXTRA.
// C12: nothing past the NUL is read (cbmc bounds check on the exact-size object) and the segment has one char-info per character consumed.
// C05(a): char-infos carry the reference decode (U+FFFD for ill-formed) and strictly increasing code-unit offsets; slot i <-> char i.
VH_ENTRY vh_read_text() {
  World w; vh_make_face(w); vh_make_segment(w);
  VhCmap cmap; w.face->m_cmap = &cmap;
  unit_t *b = vh_new<unit_t>(LEN + 1);
  for (unsigned i = 0; i < LEN; ++i) { b[i] = nondet_unit(); ASSUME(b[i] != 0); }
  b[LEN] = 0;
  // reference decode of the text before the NUL, with the resynchronisation rule of the codec lemma (C11 get_step):
  // an ill-formed sequence is one U+FFFD and consumes the lead unit plus following continuation units of the announced length
  uint32_t refc[LEN + 1]; size_t refoff[LEN + 1]; unsigned nref = 0; bool surrogate = false;
  {
    size_t i = 0;
    while (i < LEN) {
      RefSeq r = REF(b + i, LEN + 1 - i);      // the NUL is readable (it terminates a truncated sequence)
      if (r.surrogate) surrogate = true;
      refoff[nref] = i;
      if (r.ok) { refc[nref++] = r.usv; i += r.len; }
      else {
        refc[nref++] = 0xFFFD;
#if ENC == 8
        unsigned need = b[i] >= 0xF0 ? 4 : b[i] >= 0xE0 ? 3 : b[i] >= 0xC0 ? 2 : 1, k = 1;
        while (k < need && i + k < LEN && (b[i + k] & 0xC0) == 0x80) ++k;
        i += k;
#else
        i += 1;
#endif
      }
    }
  }
  ASSUME(!surrogate);
  // the segment as its constructor leaves it for nChars = NCH: NCH char-infos, glyph count preset to NCH, empty stream
  const size_t nChars = NCH;
  Segment *seg = w.seg;
  seg->m_numCharinfo = NCH; seg->m_numGlyphs = NCH;
  Features feats;
  bool ok = seg->read_text(w.face, &feats, GRENC, b, nChars);
  ASSERT(ok, "read_text succeeds");
  ASSERT(seg->charInfoCount() == nref, "one char-info per character actually consumed (text ends at the first NUL)");
  ASSERT(seg->slotCount() == nref, "one slot per character consumed");
  unsigned k = 0;
  for (Slot *s = seg->first(); k < nref + 1 && s; s = s->next(), ++k) {
    ASSERT(s->before() == (int)k && s->after() == (int)k && s->original() == (int)k, "slot i is associated with character i");
  }
  ASSERT(k == nref, "slot chain has one slot per character");
  for (unsigned i = 0; i < nref; ++i) {
    ASSERT(seg->charinfo(i)->unicodeChar() == refc[i], "gr_cinfo_unicode_char = decoded character (U+FFFD for ill-formed)");
    ASSERT(seg->charinfo(i)->base() == refoff[i], "gr_cinfo_base = code-unit offset of the character");
    if (i) ASSERT(seg->charinfo(i)->base() > seg->charinfo(i - 1)->base(), "offsets strictly increase");
  }
  VH_END();
}
