// Register bank of the call-threaded interpreter (mirrors 'struct regbank' in src/call_machine.cpp; layout is
// cross-checked by the C07 optable query: a mismatch makes every opcode query fail, never pass).
#pragma once
#include "inc/Machine.h"
#include "inc/Segment.h"
#include "inc/Slot.h"
#include "inc/Rule.h"
using namespace graphite2;
using namespace graphite2::vm;
struct regbank {
  slotref is;
  slotref *map;
  SlotMap &smap;
  slotref *const map_base;
  const instr *&ip;
  uint8 direction;
  int8 flags;
  Machine::status_t &status;
};
typedef bool (*ip_t)(const byte *&dp, Machine::stack_t *&sp, Machine::stack_t *const sb, regbank &reg);
