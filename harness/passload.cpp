// C01 (Pass loader on arbitrary bytes) and the guarantee side of DESIGN 2.2: what Pass::readRanges / readStates leave behind when they
// accept is exactly the INV_pass that the runFSM / rule-loop lemmas (fsm.cpp, C02/C06) assume.  Counts that size allocations are pinned
// by the query (they come from the pass header, which readPass has range-checked before); every table byte is arbitrary.
#include "loader.h"
#include "inc/GlyphCache.h"
#include "inc/Silf.h"
#include "inc/Pass.h"
#include "inc/Rule.h"
#include "inc/Error.h"
using namespace graphite2::vm;
#ifndef NFG
#define NFG 3             /* m_numGlyphs: glyph ids known to the pass */
#endif
#ifndef NR
#define NR 2              /* ranges in the table */
#endif
#ifndef NSTATES
#define NSTATES 3
#endif
#ifndef NTRANS
#define NTRANS 2
#endif
#ifndef NSUCC
#define NSUCC 2
#endif
#ifndef NCOLS
#define NCOLS 2
#endif
#ifndef NRULES
#define NRULES 2
#endif
#ifndef MAPLEN
#define MAPLEN 3
#endif
#ifndef NPRE
#define NPRE 1            /* maxPreCtxt - minPreCtxt + 1 start states */
#endif
static Pass *raw_pass() { Pass *p = vh_new<Pass>(); memset((void *)p, 0, sizeof(Pass)); return p; }

// ---- readRanges: glyph -> column map
VH_ENTRY vh_readranges() {
  Provider *pr = &g_prov; Face *f = vh_raw_face(pr, true); (void)f;
  Pass *p = raw_pass();
  p->m_numGlyphs = NFG; p->m_numColumns = nondet_u16();
  uint8_t *b = vh_bytes(6 * NR ? 6 * NR : 1);
  Error e;
  bool ok = p->readRanges(b, NR, e);
  if (ok) {
    ASSERT(p->m_cols != 0, "accepted: column map allocated");
    for (unsigned g = 0; g < NFG; ++g)
      ASSERT(p->m_cols[g] == 0xffff || p->m_cols[g] < p->m_numColumns, "INV_pass: every glyph maps to no column or to a column of the transition table");
#ifdef REACH_ACCEPT
    VH_END();
#endif
  }
#ifndef REACH_ACCEPT
  VH_END();
#endif
}

// ---- readStates: start states, transition table, per-state rule lists
VH_ENTRY vh_readstates() {
  Provider *pr = &g_prov; Face *f = vh_raw_face(pr, true);
  Pass *p = raw_pass();
  p->m_numStates = NSTATES; p->m_numTransition = NTRANS; p->m_numSuccess = NSUCC; p->m_successStart = NSTATES - NSUCC;
  p->m_numColumns = NCOLS; p->m_numRules = NRULES;
  p->m_minPreCtxt = nondet_u8(); ASSUME(p->m_minPreCtxt <= 255 - (NPRE - 1)); p->m_maxPreCtxt = p->m_minPreCtxt + (NPRE - 1);
  Rule *rules = vh_new<Rule>(NRULES);
  for (unsigned r = 0; r < NRULES; ++r) { ::new (rules + r) Rule(); rules[r].sort = nondet_u8() & 63; rules[r].preContext = nondet_u8(); }
  RuleEntry *map = vh_new<RuleEntry>(MAPLEN);             // as readRules leaves it: every entry names one of the pass's rules
  for (unsigned i = 0; i < MAPLEN; ++i) { uint8_t k = nondet_u8(); ASSUME(k < NRULES); map[i].rule = &rules[k]; }
  p->m_rules = rules; p->m_ruleMap = map;
  uint8_t *starts = vh_bytes(2 * NPRE), *states = vh_bytes(2 * NTRANS * NCOLS ? 2 * NTRANS * NCOLS : 1), *orm = vh_bytes(2 * (NSUCC + 1));
  orm[2 * NSUCC] = (uint8_t)(MAPLEN >> 8); orm[2 * NSUCC + 1] = (uint8_t)MAPLEN;      // the entry count readPass sized m_ruleMap with
  Error e;
  bool ok = p->readStates(starts, states, orm, *f, e);
  if (ok) {
    for (unsigned i = 0; i < NPRE; ++i) ASSERT(p->m_startStates[i] < NSTATES, "INV_pass: start states are states");
    for (unsigned i = 0; i < NTRANS * NCOLS; ++i) ASSERT(p->m_transitions[i] < NSTATES, "INV_pass: transitions lead to states");
    for (unsigned s = 0; s < NSTATES; ++s) {
      const State &st = p->m_states[s];
      if (s < NSTATES - NSUCC) { ASSERT(st.rules == 0 && st.rules_end == 0, "non-success states carry no rules"); continue; }
      ASSERT(st.rules >= map && st.rules <= st.rules_end && st.rules_end <= map + MAPLEN, "INV_pass: a success state's rules are a slice of the rule map");
      ASSERT(st.rules_end - st.rules <= FiniteStateMachine::MAX_RULES, "at most MAX_RULES rules per state");
      for (const RuleEntry *r = st.rules; r + 1 < st.rules_end && r < map + MAPLEN; ++r) ASSERT(!(r[1] < r[0]), "INV_pass: rules of a state sorted by precedence");
    }
#ifdef REACH_ACCEPT
    VH_END();
#endif
  }
#ifndef REACH_ACCEPT
  VH_END();
#endif
}

#ifdef VH_PASS_HEADER
// ---- readPass itself: header checks and the carving of the pass into sub-arrays, on arbitrary bytes of a concrete length with every
// count and offset symbolic.  The three sub-loaders and the bytecode loader are replaced by stubs that assert the precondition the real
// ones rely on - "the bytes I am told to read lie inside the pass" (readRanges/readStates above and the decoder lemmas assume exact-size
// buffers) - and answer arbitrarily.  This is the guarantee side of the assume/guarantee split for the Pass loader.
extern "C" bool vh_stub_readranges(Pass *self, const byte *ranges, size_t num_ranges, Error *e) asm("_ZN9graphite24Pass10readRangesEPKhmRNS_5ErrorE");
bool vh_stub_readranges(Pass *self, const byte *ranges, size_t num_ranges, Error *) {
  ASSERT(vh_readable(ranges, 6 * num_ranges), "readRanges is handed num_ranges 6-byte records inside the pass");
  ASSERT(num_ranges >= 1, "readRanges is only called with at least one range (m_numGlyphs was read from the last one)");
  return nondet_bool();
}
static inline unsigned pk16(const void *p) { const uint8_t *b = (const uint8_t *)p; return (b[0] << 8) | b[1]; }
extern "C" bool vh_stub_readrules(Pass *self, const byte *rule_map, size_t num_entries, const byte *precontext, const uint16 *sort_key, const uint16 *o_constraint,
                                  const byte *rc_data, const uint16 *o_action, const byte *ac_data, Face *face, int pt, Error *e)
    asm("_ZN9graphite24Pass9readRulesEPKhmS2_PKtS4_S2_S4_S2_RNS_4FaceENS_8passtypeERNS_5ErrorE");
bool vh_stub_readrules(Pass *self, const byte *rule_map, size_t num_entries, const byte *precontext, const uint16 *sort_key, const uint16 *o_constraint,
                       const byte *rc_data, const uint16 *o_action, const byte *ac_data, Face *, int, Error *) {
  const size_t nr = self->m_numRules;
  ASSERT(vh_readable(rule_map, 2 * num_entries), "readRules: rule map entries inside the pass");
  ASSERT(vh_readable(precontext, nr) && vh_readable(sort_key, 2 * nr), "readRules: pre-context and sort-key arrays inside the pass");
  ASSERT(vh_readable(o_constraint, 2 * (nr + 1)) && vh_readable(o_action, 2 * (nr + 1)), "readRules: code offset arrays inside the pass");
  ASSERT(vh_readable(rc_data, pk16(o_constraint + nr)) && vh_readable(ac_data, pk16(o_action + nr)), "readRules: constraint and action code blocks inside the pass");
  return nondet_bool();
}
extern "C" bool vh_stub_readstates(Pass *self, const byte *starts, const byte *states, const byte *o_rule_map, Face *face, Error *e)
    asm("_ZN9graphite24Pass10readStatesEPKhS2_S2_RNS_4FaceERNS_5ErrorE");
bool vh_stub_readstates(Pass *self, const byte *starts, const byte *states, const byte *o_rule_map, Face *, Error *) {
  ASSERT(vh_readable(starts, 2 * (size_t)(self->m_maxPreCtxt - self->m_minPreCtxt + 1)), "readStates: start states inside the pass");
  ASSERT(vh_readable(states, 2 * (size_t)self->m_numTransition * self->m_numColumns), "readStates: transition table inside the pass");
  ASSERT(vh_readable(o_rule_map, 2 * ((size_t)self->m_numSuccess + 1)), "readStates: rule map offsets inside the pass");
#if defined(WITNESS) && defined(REACH_STATES)     /* vacuity guard of the *_reach queries: the last sub-loader must be reachable at this table length */
  __CPROVER_assert(false, "WITNESS");
#endif
  return nondet_bool();
}
static instr vh_dummy_instr[1];
extern "C" void vh_stub_code_ctor(Machine::Code *self, bool is_constraint, const byte *bc_begin, const byte *bc_end, uint8 pre_context, uint16 rule_length,
                                  const Silf *, const Face *, int pt, byte **out)
    asm("_ZN9graphite22vm7Machine4CodeC2EbPKhS4_htRKNS_4SilfERKNS_4FaceENS_8passtypeEPPh");
void vh_stub_code_ctor(Machine::Code *self, bool is_constraint, const byte *bc_begin, const byte *bc_end, uint8, uint16, const Silf *, const Face *, int, byte **) {
  ASSERT(bc_begin <= bc_end && vh_readable(bc_begin, (size_t)(bc_end - bc_begin)), "the bytecode loader is handed a byte range inside the pass");
  memset((void *)self, 0, sizeof *self);
  self->_constraint = is_constraint;
  self->_status = nondet_bool() ? Machine::Code::loaded : Machine::Code::missing_return;
  self->_code = nondet_bool() ? vh_dummy_instr : 0;
}
#ifdef VH_NATIVE   /* natively the complete-object constructor is a separate symbol (an alias in the IR, retargeted by run_check) */
extern "C" void vh_stub_code_ctor1(Machine::Code *self, bool c, const byte *b, const byte *e, uint8 pc, uint16 rl, const Silf *s, const Face *f, int pt, byte **o)
    asm("_ZN9graphite22vm7Machine4CodeC1EbPKhS4_htRKNS_4SilfERKNS_4FaceENS_8passtypeEPPh");
void vh_stub_code_ctor1(Machine::Code *self, bool c, const byte *b, const byte *e, uint8 pc, uint16 rl, const Silf *s, const Face *f, int pt, byte **o) { vh_stub_code_ctor(self, c, b, e, pc, rl, s, f, pt, o); }
#endif
#ifndef LEN
#define LEN 40
#endif
VH_ENTRY vh_readpass() {
  Provider *pr = &g_prov; Face *f = vh_raw_face(pr, true);
  GlyphCache *gc = vh_new<GlyphCache>(); memset((void *)gc, 0, sizeof(GlyphCache));
  static GlyphBox *one_box[1];
  gc->_boxes = nondet_bool() ? one_box : 0;
  f->m_pGlyphFaceCache = gc;
  Silf *silf = vh_new<Silf>(); memset((void *)silf, 0, sizeof(Silf));
  silf->m_aCollision = nondet_u8(); silf->m_flags = nondet_u8();
  Pass *p = raw_pass(); p->m_silf = silf;
  uint8_t *b = vh_bytes(LEN);
  size_t base = nondet_u32();                                   // offset of the pass inside the Silf subtable
  uint8_t ptv = nondet_u8(); ASSUME(ptv <= PASS_TYPE_JUSTIFICATION);
  Error e;
  bool ok = p->readPass(b, LEN, base, *f, (passtype)ptv, nondet_u32(), e);
  if (ok) {
    ASSERT(p->m_numTransition <= p->m_numStates && p->m_numSuccess <= p->m_numStates && p->m_numSuccess + p->m_numTransition >= p->m_numStates, "accepted: state counts consistent");
    ASSERT(p->m_successStart == p->m_numStates - p->m_numSuccess && p->m_numColumns <= 0x7fff, "accepted: success states are the last ones; column count fits");
    ASSERT(p->m_iMaxLoop >= 1 && p->m_colThreshold >= 1 && p->m_minPreCtxt <= p->m_maxPreCtxt, "accepted: loop budget and thresholds positive, pre-context bounds ordered");
    ASSERT(p->m_numRules || p->m_numCollRuns, "accepted: the pass does something");
  }
#ifndef REACH_STATES
  VH_END();
#endif
}
#endif

#ifdef VH_READRULES
// ---- readRules: rule records, code block offsets and the rule map on arbitrary bytes; the bytecode loader is a stub that asserts its byte
// range lies inside the code block it was cut from and consumes an arbitrary amount of the program pool it was promised.
#ifndef NENT
#define NENT 2
#endif
#ifndef RCLEN
#define RCLEN 2
#endif
#ifndef ACLEN
#define ACLEN 3
#endif
#ifndef SORTV
#define SORTV 2
#endif
static const byte *g_rc, *g_ac;
extern "C" void vh_stub_code_ctor_r(Machine::Code *self, bool is_constraint, const byte *bc_begin, const byte *bc_end, uint8 pre_context, uint16 rule_length,
                                    const Silf *, const Face *, int pt, byte **out)
    asm("_ZN9graphite22vm7Machine4CodeC2EbPKhS4_htRKNS_4SilfERKNS_4FaceENS_8passtypeEPPh");
void vh_stub_code_ctor_r(Machine::Code *self, bool is_constraint, const byte *bc_begin, const byte *bc_end, uint8, uint16 rule_length, const Silf *, const Face *, int, byte **out) {
  ASSERT(bc_begin <= bc_end && vh_readable(bc_begin, (size_t)(bc_end - bc_begin)), "the bytecode loader is handed a byte range inside the code block");
  ASSERT(is_constraint ? (bc_begin >= g_rc && bc_end <= g_rc + RCLEN) : (bc_begin >= g_ac && bc_end <= g_ac + ACLEN), "constraint code comes from the constraint block, action code from the action block");
  memset((void *)self, 0, sizeof *self);
  self->_constraint = is_constraint;
  self->_status = nondet_bool() ? Machine::Code::loaded : Machine::Code::missing_return;
  if (out) {                                   // takes what estimateCodeDataOut promised for this code, or less
    self->_code = (instr *)*out; *out += 1;        // one byte of the promised pool per code (keeps the final realloc size concrete)
  }
}
VH_ENTRY vh_readrules() {
  Provider *pr = &g_prov; Face *f = vh_raw_face(pr, true);
  Silf *silf = vh_new<Silf>(); memset((void *)silf, 0, sizeof(Silf));
  Pass *p = raw_pass(); p->m_silf = silf;
  p->m_numRules = NRULES; p->m_minPreCtxt = nondet_u8(); p->m_maxPreCtxt = nondet_u8();
  uint8_t *rule_map = vh_bytes(2 * NENT), *precontext = vh_bytes(NRULES), *sort_key = vh_bytes(2 * NRULES), *o_constraint = vh_bytes(2 * (NRULES + 1)),
          *rc = vh_bytes(RCLEN), *o_action = vh_bytes(2 * (NRULES + 1)), *ac = vh_bytes(ACLEN);
  g_rc = rc; g_ac = ac;
  for (unsigned r = 0; r < NRULES; ++r) { sort_key[2 * r] = 0; sort_key[2 * r + 1] = (uint8_t)(SORTV + r); }     // rule lengths pinned: they size the program pool
  // what readPass has established before the call: the announced block lengths are the real ones
  ASSUME(((o_constraint[2 * NRULES] << 8) | o_constraint[2 * NRULES + 1]) == RCLEN && ((o_action[2 * NRULES] << 8) | o_action[2 * NRULES + 1]) == ACLEN);
  Error e;
  uint8_t ptv = nondet_u8(); ASSUME(ptv <= PASS_TYPE_JUSTIFICATION);
  bool ok = p->readRules(rule_map, NENT, precontext, (const uint16 *)sort_key, (const uint16 *)o_constraint, rc, (const uint16 *)o_action, ac, *f, (passtype)ptv, e);
  if (ok) {
    for (unsigned r = 0; r < NRULES; ++r) {
      const Rule &ru = p->m_rules[r];
      ASSERT(ru.sort <= 63 && ru.preContext < ru.sort && ru.preContext <= p->m_maxPreCtxt && ru.preContext >= p->m_minPreCtxt, "INV_pass: rule length and pre-context inside the slot-map and pre-context bounds");
      ASSERT(ru.action != 0 && ru.constraint != 0, "every rule has its two code objects");
    }
    for (unsigned i = 0; i < NENT; ++i) ASSERT(p->m_ruleMap[i].rule >= p->m_rules && p->m_ruleMap[i].rule < p->m_rules + NRULES, "INV_pass: rule map entries name rules of this pass");
#ifdef REACH_ACCEPT      /* vacuity guard: the witness twin must reach an accepting run */
    VH_END();
#endif
  }
#ifndef REACH_ACCEPT
  VH_END();
#endif
}
#endif

#ifdef VH_STATES_CAP
// ---- readStates, more than MAX_RULES rules in one success state: the state keeps the MAX_RULES highest-precedence rules, i.e. the WHOLE list the
// font gives is sorted before the cap is applied.  qsort is replaced by a recorder (the sort itself is the insertion-sort model elsewhere): it must
// be handed the state's complete list.
static void *vh_qbase; static size_t vh_qn, vh_qcalls;
extern "C" __attribute__((used)) void vh_qsort_rec(void *base, size_t n, size_t sz, void *cmp) { vh_qbase = base; vh_qn = n; ++vh_qcalls; (void)sz; (void)cmp; }
#ifdef VH_NATIVE      /* native replay: the library calls libc's qsort; the executable's own definition takes its place */
extern "C" void qsort(void *base, size_t n, size_t sz, int (*cmp)(const void *, const void *)) { vh_qsort_rec(base, n, sz, (void *)cmp); }
#endif
#ifndef BIGMAP
#define BIGMAP 130
#endif
VH_ENTRY vh_readstates_cap() {
  Provider *pr = &g_prov; Face *f = vh_raw_face(pr, true);
  Pass *p = raw_pass();
  p->m_numStates = 1; p->m_numTransition = 0; p->m_numSuccess = 1; p->m_successStart = 0; p->m_numColumns = 1; p->m_numRules = 2;
  p->m_minPreCtxt = 0; p->m_maxPreCtxt = 0;
  Rule *rules = vh_new<Rule>(2);
  for (unsigned r = 0; r < 2; ++r) { ::new (rules + r) Rule(); rules[r].sort = nondet_u8() & 63; }
  RuleEntry *map = vh_new<RuleEntry>(BIGMAP);
  for (unsigned i = 0; i < BIGMAP; ++i) map[i].rule = &rules[nondet_u8() & 1];
  p->m_rules = rules; p->m_ruleMap = map;
  uint8_t *starts = vh_bytes(2), *states = vh_bytes(1), *orm = vh_bytes(4);
  starts[0] = 0; starts[1] = 0;                                        // start state 0
  orm[0] = 0; orm[1] = 0; orm[2] = (uint8_t)(BIGMAP >> 8); orm[3] = (uint8_t)BIGMAP;      // the one success state owns map[0..BIGMAP)
  Error e; vh_qcalls = 0;
  bool ok = p->readStates(starts, states, orm, *f, e);
  ASSERT(ok, "a state with more than MAX_RULES rules is accepted (and capped)");
  ASSERT(vh_qcalls == 1 && vh_qbase == (void *)map && vh_qn == BIGMAP, "the complete rule list of the state is sorted (then the first MAX_RULES are kept)");
  ASSERT(p->m_states[0].rules == map && p->m_states[0].rules_end == map + (BIGMAP > FiniteStateMachine::MAX_RULES ? (unsigned)FiniteStateMachine::MAX_RULES : BIGMAP), "at most MAX_RULES rules kept");
  VH_END();
}
#endif
