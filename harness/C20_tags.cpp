// C20: tag/string conversions honour their documented buffer contracts (DESIGN 3.20)
#include "common.h"
#include "graphite2/Font.h"
#ifndef LEN
#define LEN 2
#endif

// gr_str_to_tag on an exact-size NUL-terminated buffer of LEN non-NUL bytes:
// reads nothing past the NUL (cbmc bounds check on the LEN+1 byte object) and returns the
// big-endian tag of the first min(4,LEN) bytes, zero padded.
VH_ENTRY vh_str_to_tag() {
  char *s = (char *)malloc(LEN + 1);
  ASSUME(s != 0);
  for (unsigned i = 0; i < LEN; ++i) { s[i] = (char)nondet_u8(); ASSUME(s[i] != 0); }
  s[LEN] = 0;
  uint32_t t = gr_str_to_tag(s);
  uint32_t ref = 0;
  for (unsigned i = 0; i < 4; ++i) ref = (ref << 8) | (i < LEN ? (uint8_t)s[i] : 0u);
  ASSERT(t == ref, "gr_str_to_tag value is the zero-padded big-endian tag of the first min(4,len) bytes");
  free(s);
  VH_END();
}

// gr_tag_to_str into an exact 4-byte buffer: writes the four tag bytes and nothing else.
VH_ENTRY vh_tag_to_str() {
  uint32_t tag = nondet_u32();
  char *b = (char *)malloc(4);
  ASSUME(b != 0);
  gr_tag_to_str(tag, b);
  ASSERT((uint8_t)b[0] == (tag >> 24) && (uint8_t)b[1] == ((tag >> 16) & 0xff) && (uint8_t)b[2] == ((tag >> 8) & 0xff) && (uint8_t)b[3] == (tag & 0xff),
         "gr_tag_to_str writes the four tag bytes big-endian");
  free(b);
  VH_END();
}

// inverse on four-character tags (no NUL byte inside): str -> tag -> str
VH_ENTRY vh_roundtrip() {
  char *s = (char *)malloc(5);
  ASSUME(s != 0);
  for (unsigned i = 0; i < 4; ++i) { s[i] = (char)nondet_u8(); ASSUME(s[i] != 0); }
  s[4] = 0;
  uint32_t t = gr_str_to_tag(s);
  char *b = (char *)malloc(4);
  ASSUME(b != 0);
  gr_tag_to_str(t, b);
  ASSERT(memcmp(b, s, 4) == 0, "tag_to_str(str_to_tag(s)) == s for 4-character s");
  uint32_t t2 = nondet_u32();
  ASSUME(((t2 >> 24) & 0xff) && ((t2 >> 16) & 0xff) && ((t2 >> 8) & 0xff) && (t2 & 0xff));
  gr_tag_to_str(t2, s);     // s has room for 4 + NUL already present at s[4]
  ASSERT(gr_str_to_tag(s) == t2, "str_to_tag(tag_to_str(t)) == t for tags without zero bytes");
  free(s); free(b);
  VH_END();
}
