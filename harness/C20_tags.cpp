// C20: tag/string conversions honour their documented buffer contracts (DESIGN 3.20)
#include "common.h"
#include "graphite2/Font.h"
#ifndef LEN
#define LEN 2
#endif

// gr_str_to_tag on an exact-size NUL-terminated buffer of LEN non-NUL bytes:
// reads nothing past the NUL (cbmc bounds check on the LEN+1 byte object) and returns the
// big-endian tag of the first min(4,LEN) bytes, zero padded.
VH_ENTRY vh_str_to_tag() {
  char *s = (char *)malloc(LEN + 1);
  ASSUME(s != 0);
  for (unsigned i = 0; i < LEN; ++i) { s[i] = (char)nondet_u8(); ASSUME(s[i] != 0); }
  s[LEN] = 0;
  uint32_t t = gr_str_to_tag(s);
  uint32_t ref = 0;
  for (unsigned i = 0; i < 4; ++i) ref = (ref << 8) | (i < LEN ? (uint8_t)s[i] : 0u);
  ASSERT(t == ref, "gr_str_to_tag value is the zero-padded big-endian tag of the first min(4,len) bytes");
  free(s);
  VH_END();
}

// gr_tag_to_str into an exact 4-byte buffer: writes the four tag bytes and nothing else.
VH_ENTRY vh_tag_to_str() {
  uint32_t tag = nondet_u32();
  char *b = (char *)malloc(4);
  ASSUME(b != 0);
  gr_tag_to_str(tag, b);
  ASSERT((uint8_t)b[0] == (tag >> 24) && (uint8_t)b[1] == ((tag >> 16) & 0xff) && (uint8_t)b[2] == ((tag >> 8) & 0xff) && (uint8_t)b[3] == (tag & 0xff),
         "gr_tag_to_str writes the four tag bytes big-endian");
  free(b);
  VH_END();
}

// inverse on four-character tags (no NUL byte inside): str -> tag -> str
VH_ENTRY vh_roundtrip() {
  char *s = (char *)malloc(5);
  ASSUME(s != 0);
  for (unsigned i = 0; i < 4; ++i) { s[i] = (char)nondet_u8(); ASSUME(s[i] != 0); }
  s[4] = 0;
  uint32_t t = gr_str_to_tag(s);
  char *b = (char *)malloc(4);
  ASSUME(b != 0);
  gr_tag_to_str(t, b);
  ASSERT(memcmp(b, s, 4) == 0, "tag_to_str(str_to_tag(s)) == s for 4-character s");
  uint32_t t2 = nondet_u32();
  ASSUME(((t2 >> 24) & 0xff) && ((t2 >> 16) & 0xff) && ((t2 >> 8) & 0xff) && (t2 & 0xff));
  gr_tag_to_str(t2, s);     // s has room for 4 + NUL already present at s[4]
  ASSERT(gr_str_to_tag(s) == t2, "str_to_tag(tag_to_str(t)) == t for tags without zero bytes");
  free(s); free(b);
  VH_END();
}

// ---- space-padded and zero-padded tags select the same feature (gr_face_find_fref) and the same language (gr_face_featureval_for_lang)
#ifdef VH_TAGSEL
#define NS 0
#define NSPARE 0
#include "world.h"
#include "inc/FeatureMap.h"
#include "inc/FeatureVal.h"
VH_ENTRY vh_tag_select() {
  World w; vh_make_face(w);
  // a tag of 1..4 significant characters (no NUL, no space), zero padded
  unsigned nsig = 1 + (nondet_u8() & 3);
  uint32_t zero = 0, space = 0;
  for (unsigned i = 0; i < 4; ++i) {
    uint8_t ch = nondet_u8(); ASSUME(ch != 0 && ch != 0x20);
    zero = (zero << 8) | (i < nsig ? ch : 0u);
    space = (space << 8) | (i < nsig ? ch : 0x20u);
  }
  // one feature and one language carrying exactly the zero-padded tag
  FeatureMap &map = w.face->m_Sill.m_FeatureMap;
  FeatureRef *fr = vh_new<FeatureRef>(1);
  unsigned short bits = 0;
  ::new (fr) FeatureRef(*w.face, bits, 1, zero, 0, FeatureRef::flags_t(0), 0, 0);
  NameAndFeatureRef *named = vh_new<NameAndFeatureRef>(1);
  named[0].m_name = zero; named[0].m_pFRef = fr;
  map.m_feats = fr; map.m_pNamedFeats = named; map.m_numFeats = 1;
  const gr_face *gf = static_cast<const gr_face *>(w.face);
  const gr_feature_ref *a = gr_face_find_fref(gf, zero), *b = gr_face_find_fref(gf, space);
  ASSERT(a == static_cast<const gr_feature_ref *>(fr), "the zero-padded tag finds the feature");
  ASSERT(b == a, "the space-padded spelling of the same tag finds the same feature");
  // language selection goes through the same normalisation
  SillMap &sill = w.face->m_Sill;
  Features *lf = vh_new<Features>(1);
  ::new (lf) Features();
  lf->m_first = vh_new<uint32>(1); lf->m_last = lf->m_end = lf->m_first + 1; lf->m_first[0] = 1; lf->m_pMap = &map;
  map.m_defaultFeatures.m_first = vh_new<uint32>(1); map.m_defaultFeatures.m_last = map.m_defaultFeatures.m_end = map.m_defaultFeatures.m_first + 1;
  map.m_defaultFeatures.m_first[0] = 0; map.m_defaultFeatures.m_pMap = &map;
  typedef SillMap::LangFeaturePair LFP;
  LFP *lfp = vh_new<LFP>(1);
  lfp[0].m_lang = zero; lfp[0].m_pFeatures = lf;
  sill.m_langFeats = lfp; sill.m_numLanguages = 1;
  gr_feature_val *vz = gr_face_featureval_for_lang(gf, zero), *vs = gr_face_featureval_for_lang(gf, space);
  ASSUME(vz != 0 && vs != 0);
  ASSERT(gr_fref_feature_value(a, vz) == 1 && gr_fref_feature_value(a, vs) == 1, "zero- and space-padded language tags select the same language's feature values");
  VH_END();
}
#endif
