// Native replay runtime: nondet_* return the values of a cbmc counterexample in call order.
#include <stdint.h>
#include <stdio.h>
#include <stdlib.h>
#include <string.h>
static uint64_t *vals; static size_t nvals, pos;
static void load() {
  static bool done; if (done) return; done = true;
  const char *p = getenv("VH_VALUES"); if (!p) p = "values.txt";
  FILE *f = fopen(p, "r"); if (!f) { fprintf(stderr, "no values file\n"); exit(3); }
  vals = (uint64_t *)malloc(sizeof(uint64_t) * 1000000);
  char line[256];
  while (fgets(line, sizeof line, f)) { if (line[0] == '#' || line[0] == '\n') continue; vals[nvals++] = strtoull(line, 0, 0); }
  fclose(f);
}
static uint64_t next() { load(); if (pos >= nvals) return 0; return vals[pos++]; }
extern "C" {
uint8_t nondet_u8(void) { return (uint8_t)next(); }
uint16_t nondet_u16(void) { return (uint16_t)next(); }
uint32_t nondet_u32(void) { return (uint32_t)next(); }
uint64_t nondet_u64(void) { return next(); }
int32_t nondet_i32(void) { return (int32_t)next(); }
float nondet_float(void) {
  uint32_t b = (uint32_t)next();
  const char *dk = getenv("VH_DYADIC");
  if (dk && atoi(dk) >= 0) return (float)(int32_t)b / (float)(1 << atoi(dk));      // dyadic query: the trace value is value * 2^K
  float f; memcpy(&f, &b, 4); return f;
}
bool __CPROVER_same_object(const void *, const void *) { return false; }
void __CPROVER_assume(bool c) { if (!c) { printf("REPLAY: assumption not satisfied\n"); fflush(stdout); _Exit(0); } }
void __CPROVER_assert(bool c, const char *m) { if (!c) { printf("REPLAY-ASSERT-FAILED: %s\n", m); fflush(stdout); _Exit(42); } }
}
extern "C" void VH_ENTRY_NAME(void);
int main() { VH_ENTRY_NAME(); printf("REPLAY: completed without failure\n"); return 0; }
