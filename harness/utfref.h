// Reference decoders written from the Unicode standard (Table 3-7, D91/D92), independent of graphite's codec.
#pragma once
#include <stdint.h>
#include <stddef.h>

struct RefSeq { int len; uint32_t usv; bool ok; bool surrogate; };   // ok=false: ill-formed at this position

// One UTF-8 sequence at p[0..avail). avail >= 1.
static inline RefSeq ref_utf8(const uint8_t *p, size_t avail) {
  RefSeq r = {1, 0xFFFD, false, false};
  uint8_t b = p[0];
  if (b < 0x80) { r.ok = true; r.usv = b; return r; }
  int n; uint8_t lo = 0x80, hi = 0xBF; uint32_t u;
  if (b >= 0xC2 && b <= 0xDF) { n = 2; u = b & 0x1F; }
  else if (b >= 0xE0 && b <= 0xEF) { n = 3; u = b & 0x0F; if (b == 0xE0) lo = 0xA0; if (b == 0xED) { hi = 0x9F; } }
  else if (b >= 0xF0 && b <= 0xF4) { n = 4; u = b & 0x07; if (b == 0xF0) lo = 0x90; if (b == 0xF4) hi = 0x8F; }
  else return r;
  // ED A0..BF xx encodes a surrogate code point: ill-formed by the standard; graphite's treatment is left unclassified (see DESIGN 3.11)
  if (b == 0xED && avail >= 2 && p[1] >= 0xA0 && p[1] <= 0xBF) { r.surrogate = true; }
  if ((size_t)n > avail) return r;
  for (int i = 1; i < n; ++i) {
    uint8_t c = p[i];
    uint8_t l = (i == 1) ? lo : 0x80, h = (i == 1) ? hi : 0xBF;
    if (c < l || c > h) return r;
    u = (u << 6) | (c & 0x3F);
  }
  r.len = n; r.usv = u; r.ok = true; return r;
}

static inline RefSeq ref_utf16(const uint16_t *p, size_t avail) {
  RefSeq r = {1, 0xFFFD, false, false};
  uint16_t a = p[0];
  if (a < 0xD800 || a > 0xDFFF) { r.ok = true; r.usv = a; return r; }
  if (a > 0xDBFF) return r;
  if (avail < 2) return r;
  uint16_t b = p[1];
  if (b < 0xDC00 || b > 0xDFFF) return r;
  r.len = 2; r.ok = true; r.usv = 0x10000u + (((uint32_t)a - 0xD800u) << 10) + ((uint32_t)b - 0xDC00u); return r;
}

static inline RefSeq ref_utf32(const uint32_t *p, size_t) {
  RefSeq r = {1, 0xFFFD, false, false};
  if (p[0] >= 0x110000u) return r;
  if (p[0] >= 0xD800u && p[0] <= 0xDFFFu) r.surrogate = true;
  r.ok = true; r.usv = p[0]; return r;
}

// reference encoders
static inline int enc_utf8(uint32_t u, uint8_t *o) {
  if (u < 0x80) { o[0] = (uint8_t)u; return 1; }
  if (u < 0x800) { o[0] = 0xC0 | (u >> 6); o[1] = 0x80 | (u & 0x3F); return 2; }
  if (u < 0x10000) { o[0] = 0xE0 | (u >> 12); o[1] = 0x80 | ((u >> 6) & 0x3F); o[2] = 0x80 | (u & 0x3F); return 3; }
  o[0] = 0xF0 | (u >> 18); o[1] = 0x80 | ((u >> 12) & 0x3F); o[2] = 0x80 | ((u >> 6) & 0x3F); o[3] = 0x80 | (u & 0x3F); return 4;
}
static inline int enc_utf16(uint32_t u, uint16_t *o) {
  if (u < 0x10000) { o[0] = (uint16_t)u; return 1; }
  u -= 0x10000; o[0] = 0xD800 | (u >> 10); o[1] = 0xDC00 | (u & 0x3FF); return 2;
}
