// C06 (matching and precedence: runFSM walk, rule accumulation order, cursor adjustment) and C02 (slot map capacity)
#include "invariants.h"
#include "inc/Pass.h"
using namespace graphite2::vm;
#ifndef NSTATES
#define NSTATES 3
#endif
#ifndef NTRANS
#define NTRANS 2          /* states with a transition row */
#endif
#ifndef NSUCC
#define NSUCC 2           /* success states (the last NSUCC states) */
#endif
#ifndef NCOLS
#define NCOLS 2
#endif
#ifndef NFG
#define NFG 3             /* glyph ids known to the pass */
#endif
#ifndef NRULES
#define NRULES 2
#endif
#ifndef MAPLEN
#define MAPLEN 3          /* entries in the rule map */
#endif
#ifndef WSTART
#define WSTART 0
#endif

struct PassWorld { Pass *pass; Rule *rules; RuleEntry *map; uint16 *cols, *starts, *trans; State *states; };

// INV_pass: what readPass/readRanges/readStates/readRules guarantee about an accepted pass
static void make_pass(PassWorld &pw, World &w) {
  Pass *p = vh_new<Pass>();
  p->m_silf = w.silf;
  p->m_numStates = NSTATES; p->m_numTransition = NTRANS; p->m_numSuccess = NSUCC; p->m_successStart = NSTATES - NSUCC;
  p->m_numColumns = NCOLS; p->m_numGlyphs = NFG; p->m_numRules = NRULES;
  p->m_maxPreCtxt = nondet_u8() & 1; p->m_minPreCtxt = nondet_u8() & 1;
  ASSUME(p->m_minPreCtxt <= p->m_maxPreCtxt);
  pw.cols = vh_new<uint16>(NFG);
  for (unsigned g = 0; g < NFG; ++g) { pw.cols[g] = nondet_u16(); ASSUME(pw.cols[g] == 0xffff || pw.cols[g] < NCOLS); }
  pw.starts = vh_new<uint16>(2);
  for (unsigned i = 0; i < 2; ++i) { pw.starts[i] = nondet_u16(); ASSUME(pw.starts[i] < NSTATES); }
  pw.trans = vh_new<uint16>(NTRANS * NCOLS);
  for (unsigned i = 0; i < NTRANS * NCOLS; ++i) { pw.trans[i] = nondet_u16(); ASSUME(pw.trans[i] < NSTATES); }
  pw.rules = vh_new<Rule>(NRULES);
  for (unsigned r = 0; r < NRULES; ++r) { ::new (pw.rules + r) Rule(); pw.rules[r].sort = nondet_u8() & 7; pw.rules[r].preContext = nondet_u8() & 1; ASSUME(pw.rules[r].preContext <= pw.rules[r].sort && pw.rules[r].sort >= 1); }
  pw.map = vh_new<RuleEntry>(MAPLEN);
  for (unsigned i = 0; i < MAPLEN; ++i) { uint8_t k = nondet_u8(); ASSUME(k < NRULES); pw.map[i].rule = &pw.rules[k]; }
  pw.states = vh_new<State>(NSTATES);
  unsigned pos = 0;
  for (unsigned s = 0; s < NSTATES; ++s) {
    if (s < NSTATES - NSUCC) { pw.states[s].rules = 0; pw.states[s].rules_end = 0; continue; }
    uint8_t n = nondet_u8(); ASSUME(pos + n <= MAPLEN);
    pw.states[s].rules = pw.map + pos; pw.states[s].rules_end = pw.map + pos + n;
    for (unsigned i = 1; i < n && i < MAPLEN; ++i) ASSUME(pw.map[pos + i - 1] < pw.map[pos + i]);      // sorted by (sort desc, address asc), no duplicates (qsort at load)
    pos += n;
  }
  p->m_cols = pw.cols; p->m_startStates = pw.starts; p->m_transitions = pw.trans; p->m_states = pw.states; p->m_rules = pw.rules; p->m_ruleMap = pw.map;
  pw.pass = p;
  // the pass and all its tables belong to the shared face (frozen-world lemmas, C08/C09)
  vh_freeze(p); vh_freeze(pw.cols); vh_freeze(pw.starts); vh_freeze(pw.trans); vh_freeze(pw.rules); vh_freeze(pw.map); vh_freeze(pw.states);
}

// ---- Pass::runFSM == reference walk over the tables; candidate rules == sorted union of the rules of the success states visited
VH_ENTRY vh_runfsm() {
  World w; vh_make_face(w); vh_make_segment(w);
  ASSUME(inv_stream(w));
  for (unsigned i = 0; i < NS; ++i) ASSUME(w.sl[i]->m_glyphid <= NFG);     // NFG itself = a glyph the pass does not know
  PassWorld pw; make_pass(pw, w);
  SlotMap smap(*w.seg, 0, 8);
  FiniteStateMachine fsm(smap, 0);
  Slot *slot = w.sl[WSTART];
  bool ok = pw.pass->runFSM(fsm, slot);
  // reference
  const Pass &p = *pw.pass;
  unsigned ctx = WSTART < p.m_maxPreCtxt ? WSTART : p.m_maxPreCtxt;
  unsigned first = WSTART - ctx;
  ASSERT(smap.context() == ctx && smap[-1] == (first ? w.sl[first - 1] : 0), "context = min(maxPreContext, slots before the cursor); map[-1] is the slot before the window");
  if (ctx < p.m_minPreCtxt) { ASSERT(!ok, "too little pre-context: no match"); VH_END(); return; }
  ASSERT(ok, "the walk itself never fails for fewer than 64 slots");
  unsigned state = pw.starts[p.m_maxPreCtxt - ctx];
  bool want[NRULES]; for (unsigned r = 0; r < NRULES; ++r) want[r] = false;
  unsigned i = first, pushed = 0;
  for (unsigned k = 0; k < NS + 1; ++k) {
    ASSERT(smap[(int)pushed] == w.sl[i], "slot map holds the stream slots from the window start, in order");
    ++pushed;
    uint16 g = w.sl[i]->m_glyphid;
    if (g >= NFG || pw.cols[g] == 0xffff || state >= NTRANS) break;
    state = pw.trans[state * NCOLS + pw.cols[g]];
    if (state >= NSTATES - NSUCC)
      for (const RuleEntry *e = pw.states[state].rules; e != pw.states[state].rules_end; ++e) want[e->rule - pw.rules] = true;
    ++i;
    if (state == 0 || i >= NS) { ASSERT(smap[(int)pushed] == (i < NS ? w.sl[i] : 0), "the slot after the match (or NULL) closes the map"); ++pushed; break; }
  }
  ASSERT(smap.size() == pushed, "slot map size = slots consumed (+ the closing slot)");
  // candidate list: exactly the wanted rules, each once, in precedence order
  unsigned n = 0; const RuleEntry *prev = 0;
  for (const RuleEntry *r = fsm.rules.begin(); r != fsm.rules.end() && n < NRULES + 1; ++r, ++n) {
    ASSERT(r->rule >= pw.rules && r->rule < pw.rules + NRULES && want[r->rule - pw.rules], "every candidate belongs to a success state that was visited");
    if (prev) ASSERT(*prev < *r, "candidates are strictly ordered: longer sort key first, then earlier rule");
    prev = r;
  }
  unsigned nwant = 0; for (unsigned r = 0; r < NRULES; ++r) nwant += want[r];
  ASSERT(n == nwant, "every rule of every visited success state is a candidate, once");
  VH_END();
}

// ---- Pass::adjustSlot: cursor after a rule = slot designated by the action's return value, clamped at both ends (reference model)
VH_ENTRY vh_adjust() {
  World w; vh_make_face(w); vh_make_segment(w);
  ASSUME(inv_stream(w));
  PassWorld pw; make_pass(pw, w);
  SlotMap smap(*w.seg, 0, 8);
  uint8_t pos = nondet_u8(); ASSUME(pos <= NS);          // NS = NULL cursor (rule ran off the end)
  Slot *cur = pos < NS ? w.sl[pos] : 0;
  uint8_t hw = nondet_u8(); ASSUME(hw <= NS);
  smap.highwater(hw < NS ? w.sl[hw] : 0);
  smap.highpassed(nondet_u8() & 1);
  bool hp0 = smap.highpassed();
  int delta = (int8_t)nondet_u8(); ASSUME(delta >= -3 && delta <= 3);
  Slot *out = cur;
  pw.pass->adjustSlot(delta, out, smap);
  // reference position
  int p;
  int d = delta;
  if (!cur) {
    if (hp0 || hw == NS) { p = NS - 1; ++d; } else { p = 0; --d; }
  } else p = pos;
  if (d < 0) { p += d - 0; /* moves |d| steps back, stopping at NULL */ }
  else if (d > 0) p += d;
  if (!cur && NS == 0) p = -1;
  if (p < 0 || p >= (int)NS) ASSERT(out == 0, "cursor moved past either end is NULL");
  else ASSERT(out == w.sl[p], "cursor lands on the slot |delta| steps from the rule's last slot (first/last slot when the rule ran off the stream)");
  ASSERT(inv_stream(w), "adjustSlot does not touch the stream");
  VH_END();
}

// ---- C02 item 4: slot map capacity.  A state machine that keeps matching (cyclic transition table - the loader only checks that every
// entry is a state) over a stream longer than the map: runFSM never writes beyond m_slot_map[MAX_SLOTS] and reports the overflow.
#ifndef LONGN
#define LONGN 66
#endif
VH_ENTRY vh_runfsm_long() {
  World w; vh_make_face(w);
  Segment *seg = vh_new<Segment>();
  memset((void *)seg, 0, sizeof(Segment));
  seg->m_face = w.face; seg->m_silf = w.silf;
  Slot *sl[LONGN];
  for (unsigned i = 0; i < LONGN; ++i) { sl[i] = vh_new<Slot>(); ::new (sl[i]) Slot(0); sl[i]->m_glyphid = nondet_u8() & 1; }
  for (unsigned i = 0; i < LONGN; ++i) { sl[i]->m_next = i + 1 < LONGN ? sl[i + 1] : 0; sl[i]->m_prev = i ? sl[i - 1] : 0; }
  seg->m_first = sl[0]; seg->m_last = sl[LONGN - 1]; seg->m_numGlyphs = LONGN; seg->m_numCharinfo = LONGN;
  // two states, one column, state 1 loops on glyph 0; glyph 1 is unknown to the pass (stops the walk)
  Pass *p = vh_new<Pass>();
  memset((void *)p, 0, sizeof(Pass));
  p->m_silf = w.silf; p->m_numStates = 2; p->m_numTransition = 2; p->m_numSuccess = 0; p->m_successStart = 2; p->m_numColumns = 1; p->m_numGlyphs = 1;
  p->m_minPreCtxt = 0; p->m_maxPreCtxt = 0;
  uint16 *cols = vh_new<uint16>(1); cols[0] = 0;
  uint16 *starts = vh_new<uint16>(1); starts[0] = 1;
  uint16 *trans = vh_new<uint16>(2); trans[0] = 0; trans[1] = 1;
  State *states = vh_new<State>(2); states[0].rules = states[0].rules_end = 0; states[1].rules = states[1].rules_end = 0;
  p->m_cols = cols; p->m_startStates = starts; p->m_transitions = trans; p->m_states = states;
  SlotMap smap(*seg, 0, 8);
  FiniteStateMachine fsm(smap, 0);
  Slot *slot = sl[0];
  bool ok = p->runFSM(fsm, slot);
  ASSERT(smap.size() <= SlotMap::MAX_SLOTS, "never more than MAX_SLOTS entries in the slot map");
  unsigned run = 0; for (unsigned i = 0; i < LONGN; ++i) { if (sl[i]->m_glyphid != 0) break; ++run; }
  if (run >= SlotMap::MAX_SLOTS) ASSERT(!ok, "a match longer than the slot map is reported as no match");
  VH_END();
}

// ---- C06 (4) / C02 (7): the rule loop of Pass::runGraphite.  findNDoRule (FSM match + constraint + action + cursor adjustment) is replaced by
// a scripted stub that moves the cursor to an arbitrary slot and sets the high-water flag arbitrarily; the loop bookkeeping is compared with
// the documented semantics: the engine resumes at the position the rule returned, unless MaxRuleLoop consecutive applications failed to
// reach the high-water mark, in which case it jumps to the high-water slot.
#ifdef VH_RULE_LOOP        /* only the rule-loop query links the findNDoRule stub */
#ifndef SCRIPT
#define SCRIPT 5
#endif
static unsigned vh_calls; static Slot *vh_seen[SCRIPT + 2]; static uint8_t vh_move[SCRIPT + 1]; static bool vh_hp[SCRIPT + 1]; static Slot **vh_sl; static unsigned vh_ns;
extern "C" void vh_stub_findndorule(const Pass *self, Slot **slot, Machine *m, FiniteStateMachine *fsm)
    asm("_ZNK9graphite24Pass11findNDoRuleERPNS_4SlotERNS_2vm7MachineERNS_18FiniteStateMachineE");
void vh_stub_findndorule(const Pass *, Slot **slot, Machine *m, FiniteStateMachine *) {
  unsigned k = vh_calls < SCRIPT + 1 ? vh_calls : SCRIPT + 1;
  if (k <= SCRIPT) vh_seen[k] = *slot;
  ++vh_calls;
  if (k >= SCRIPT) { *slot = 0; return; }                 // script exhausted: the rule runs off the end
  *slot = vh_move[k] < vh_ns ? vh_sl[vh_move[k]] : 0;
  m->slotMap().highpassed(vh_hp[k]);
}

VH_ENTRY vh_rule_loop() {
  World w; vh_make_face(w); vh_make_segment(w);
  ASSUME(inv_stream(w));
  vh_sl = w.sl; vh_ns = NS; vh_calls = 0;
  for (unsigned k = 0; k < SCRIPT; ++k) { vh_move[k] = nondet_u8(); ASSUME(vh_move[k] <= NS); vh_hp[k] = nondet_u8() & 1; }
  Pass *p = vh_new<Pass>();
  memset((void *)p, 0, sizeof(Pass));
  p->m_silf = w.silf; p->m_numRules = 1; p->m_iMaxLoop = 1 + (nondet_u8() % 3);
  const unsigned maxloop = p->m_iMaxLoop;
  SlotMap smap(*w.seg, 0, 8);
  FiniteStateMachine fsm(smap, 0);
  Machine m(smap);
  bool ok = p->runGraphite(m, fsm, false);
  ASSERT(ok, "a pass without collision fixing succeeds");
  // reference bookkeeping over the same script
  int cur = 0;                      // index of the cursor slot, NS = NULL
  int hw = NS > 1 ? 1 : NS;         // high-water: the slot after the first
  unsigned lc = maxloop; unsigned calls = 0;
  for (unsigned k = 0; k < SCRIPT + 2 && cur != (int)NS; ++k) {
    ASSERT(calls < vh_calls && vh_seen[calls] == w.sl[cur], "each rule search starts where the previous rule returned (or at the high-water slot after MaxRuleLoop non-advancing applications)");
    int ret = calls < SCRIPT ? (vh_move[calls] < NS ? vh_move[calls] : (int)NS) : (int)NS;
    bool hp = calls < SCRIPT ? vh_hp[calls] : false;
    ++calls;
    cur = ret;
    if (cur != (int)NS) {
      bool advanced = (cur == hw) || hp;
      if (advanced) { lc = maxloop; hw = cur + 1 < (int)NS ? cur + 1 : (int)NS; }
      else if (--lc == 0) { cur = hw; lc = maxloop; if (cur != (int)NS) hw = cur + 1 < (int)NS ? cur + 1 : (int)NS; }
    }
  }
  ASSERT(calls == vh_calls, "the loop ends exactly when a rule returns past the end");
  VH_END();
}
#endif

// ---- Pass::testConstraint on a rule without constraint code (the common case): the answer depends only on whether the rule's context fits the
// slot map, and (frozen-world lemma, C08/C09) testing it writes nothing into the pass, its rules or their code objects - they belong to the face
VH_ENTRY vh_test_constraint() {
  World w; vh_make_face(w); vh_make_segment(w);
  ASSUME(inv_stream(w));
  for (unsigned i = 0; i < NS; ++i) ASSUME(w.sl[i]->m_glyphid <= NFG);
  PassWorld pw; make_pass(pw, w);
  Machine::Code *codes = vh_new<Machine::Code>(2 * NRULES);
  memset((void *)codes, 0, sizeof(Machine::Code) * 2 * NRULES);               // Code(): no program, status loaded, nothing owned
  for (unsigned r = 0; r < NRULES; ++r) { pw.rules[r].action = &codes[2 * r]; pw.rules[r].constraint = &codes[2 * r + 1]; codes[2 * r + 1]._constraint = true; }
  vh_freeze(codes);
  SlotMap smap(*w.seg, 0, 8);
  FiniteStateMachine fsm(smap, 0);
  Machine m(smap);
  bool ok = pw.pass->runFSM(fsm, w.sl[WSTART]);
  if (ok) {
    uint8_t k = nondet_u8(); ASSUME(k < NRULES);
    const Rule &r = pw.rules[k];
    bool t = pw.pass->testConstraint(r, m);
    const int ctx = smap.context();
    bool fits = !((unsigned)(r.sort + ctx - r.preContext) > smap.size() || ctx - r.preContext < 0);
    bool ref = fits && smap[(int)r.sort - 1 - (int)r.preContext] != 0;
    ASSERT(t == ref, "no constraint code: the rule is applicable exactly when its context fits the slot map and its last slot exists");
    ASSERT(codes[2 * k + 1]._own == false && codes[2 * k + 1]._code == 0, "the rule's code object is untouched");
  }
  VH_END();
}

// ---- Rules::accumulate_rules: merging the precedence-sorted rule list of a success state into the accumulated list gives the precedence-sorted
// union (longer sort key first, then the earlier rule; no duplicates) - the order in which findNDoRule tries the rules
#ifndef LA
#define LA 2
#endif
#ifndef LB
#define LB 2
#endif
static __attribute__((noinline)) bool strictly_sorted(const RuleEntry *b, const RuleEntry *e) {
  for (unsigned k = 0; k < LA + LB && b != e && b + 1 != e; ++k, ++b) if (!(b[0] < b[1])) return false;
  return true;
}
static __attribute__((noinline)) bool has_rule(const RuleEntry *b, const RuleEntry *e, const Rule *r) {
  for (unsigned k = 0; k < LA + LB + 1 && b != e; ++k, ++b) if (b->rule == r) return true;
  return false;
}
VH_ENTRY vh_accumulate() {
  Rule *rules = vh_new<Rule>(NRULES);
  for (unsigned r = 0; r < NRULES; ++r) { ::new (rules + r) Rule(); rules[r].sort = nondet_u8() & 3; rules[r].preContext = nondet_u8() & 1; }
  RuleEntry *a = vh_new<RuleEntry>(LA ? LA : 1), *b = vh_new<RuleEntry>(LB ? LB : 1);
#ifdef AIDX      /* which rules the two lists name is given by the query (symbolic entries make every store into the 256-entry merge buffer a case split:
                    no verdict in 240 s); the sort keys, which decide the order, stay arbitrary */
  { static const unsigned ai[] = {AIDX, 0}, bi[] = {BIDX, 0};
    for (unsigned i = 0; i < LA; ++i) a[i].rule = &rules[ai[i]];
    for (unsigned i = 0; i < LB; ++i) b[i].rule = &rules[bi[i]]; }
#else
  for (unsigned i = 0; i < LA; ++i) { uint8_t k = nondet_u8(); ASSUME(k < NRULES); a[i].rule = &rules[k]; }
  for (unsigned i = 0; i < LB; ++i) { uint8_t k = nondet_u8(); ASSUME(k < NRULES); b[i].rule = &rules[k]; }
#endif
  ASSUME(strictly_sorted(a, a + LA) && strictly_sorted(b, b + LB));          // as readStates leaves each state's list (qsort + distinct entries)
  State sa, sb; sa.rules = a; sa.rules_end = a + LA; sb.rules = b; sb.rules_end = b + LB;
  FiniteStateMachine::Rules *rs = vh_new<FiniteStateMachine::Rules>();
  rs->m_begin = rs->m_rules; rs->m_end = rs->m_rules;                       // Rules::Rules() / clear()
  rs->accumulate_rules(sa);
  rs->accumulate_rules(sb);
  const RuleEntry *ob = rs->begin(), *oe = rs->end();
  ASSERT(oe - ob <= LA + LB && ob >= rs->m_rules && oe <= rs->m_rules + 2 * FiniteStateMachine::MAX_RULES, "result inside the rule buffer");
  ASSERT(strictly_sorted(ob, oe), "candidate rules in precedence order: longer sort key first, then the earlier rule, no duplicates");
  for (unsigned i = 0; i < LA; ++i) ASSERT(has_rule(ob, oe, a[i].rule), "every rule of the first state is a candidate");
  for (unsigned i = 0; i < LB; ++i) ASSERT(has_rule(ob, oe, b[i].rule), "every rule of the second state is a candidate");
  for (unsigned k = 0; k < LA + LB; ++k) if (ob + k < oe) ASSERT(has_rule(a, a + LA, ob[k].rule) || has_rule(b, b + LB, ob[k].rule), "nothing else is a candidate");
  VH_END();
}
