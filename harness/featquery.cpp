// C09 / C08: feature queries on a shared face write nothing into the face.  FeatureMap::findFeatureRef (behind gr_face_find_fref) with the
// name index, the feature records and the map itself frozen (ll2c --frozen: every store of library code is checked against them).
#define NS 0
#define NSPARE 0
#include "world.h"
#include "inc/FeatureMap.h"
#ifndef NFEAT
#define NFEAT 3
#endif
VH_ENTRY vh_find_fref() {
  World w; vh_make_face(w);
  FeatureMap &map = w.face->m_Sill.m_FeatureMap;
  FeatureRef *fr = vh_new<FeatureRef>(NFEAT); memset((void *)fr, 0, sizeof(FeatureRef) * NFEAT);
  NameAndFeatureRef *nf = vh_new<NameAndFeatureRef>(NFEAT);
  for (unsigned i = 0; i < NFEAT; ++i) { nf[i].m_name = nondet_u32(); nf[i].m_pFRef = fr + i; }
  map.m_feats = fr; map.m_numFeats = NFEAT; map.m_pNamedFeats = nf;
  vh_freeze(nf); vh_freeze(fr);
  uint32 want = nondet_u32();
  const FeatureRef *r = map.findFeatureRef(want);
  const FeatureRef *ref = 0;
  for (unsigned i = NFEAT; i-- > 0; ) if (nf[i].m_name == want) ref = fr + i;
  ASSERT(r == ref, "the feature with that id (the first one listed), NULL if the font has none");
  const FeatureRef *again = map.findFeatureRef(want);
  ASSERT(again == r, "asking again gives the same answer");
  VH_END();
}
