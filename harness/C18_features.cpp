// C18: feature values are an isolated, range-checked map (DESIGN 3.18)
#define NS 0
#define NSPARE 0
#include "world.h"
#include "inc/FeatureMap.h"
#include "inc/FeatureVal.h"
#include "graphite2/Font.h"

static unsigned need_bits(uint32_t maxv) { unsigned k = 0; while (k < 32 && (maxv >> k) != 0) ++k; return k; }

// (1) allocation step: two successive FeatureRef constructions from an arbitrary running bit offset.
// readFeats accepts the table only while the running offset stays below 256 words (the word index is a byte).
VH_ENTRY vh_fref_alloc() {
  Face *face = vh_new<Face>();
  unsigned short bits = nondet_u16();
#ifdef NOREJECT      /* the loader as it was before the readFeats fix: no limit on the running offset */
#define ACCEPTED(b) true
#else
#define ACCEPTED(b) ((b) < 256 * 32)
  ASSUME(bits < 256 * 32);
#endif
#ifdef BITS_LO
  ASSUME(bits >= BITS_LO && bits < BITS_HI);      // the offset range is split over two queries
#endif
  uint32_t max1 = nondet_u32(), max2 = nondet_u32();
  const unsigned short in1 = bits;
  FeatureRef *f = vh_new<FeatureRef>(2);
  ::new (f) FeatureRef(*face, bits, max1, 1, 0, FeatureRef::flags_t(0), 0, 0);
  const unsigned short out1 = bits;
  if (ACCEPTED(out1)) {                     // otherwise readFeats rejects the font
    unsigned n1 = need_bits(max1);
    ASSERT(f[0].m_bits + n1 <= 32, "field lies inside one 32-bit word");
    ASSERT(n1 == 32 ? f[0].m_mask == 0xffffffffu : f[0].m_mask == (((1u << n1) - 1) << f[0].m_bits), "mask covers exactly the bits needed for the largest value");
    unsigned start1 = f[0].m_index * 32u + f[0].m_bits;
    ASSERT(start1 >= in1 && start1 + n1 == out1, "field starts at or after the running offset and the offset moves to its end");
    ::new (f + 1) FeatureRef(*face, bits, max2, 2, 0, FeatureRef::flags_t(0), 0, 0);
    if (ACCEPTED(bits)) {
      unsigned n2 = need_bits(max2);
      unsigned start2 = f[1].m_index * 32u + f[1].m_bits;
      ASSERT(start2 >= start1 + n1, "successive features occupy disjoint bit fields");
      ASSERT(f[1].m_bits + n2 <= 32, "second field inside one word");
    }
  }
  VH_END();
}

// (2) map laws on two features allocated by the real constructor
VH_ENTRY vh_fmap_laws() {
  World w; vh_make_face(w);
  FeatureMap &map = w.face->m_Sill.m_FeatureMap;
  unsigned short bits = 0;
  uint32_t max1 = nondet_u32(), max2 = nondet_u32();
  // readFeats: maxVal is the largest 16-bit setting value, or 0xffffffff for a feature without settings
  ASSUME(max1 <= 0xffff || max1 == 0xffffffffu);
  ASSUME(max2 <= 0xffff || max2 == 0xffffffffu);
#ifdef MAX1      /* quick tier: the two maxima (hence field positions and widths) are given by the query; words, values and the feature chosen stay arbitrary */
  max1 = MAX1; max2 = MAX2;
#endif
  FeatureRef *f = vh_new<FeatureRef>(2);
  ::new (f) FeatureRef(*w.face, bits, max1, 1, 0, FeatureRef::flags_t(0), 0, 0);
  ::new (f + 1) FeatureRef(*w.face, bits, max2, 2, 0, FeatureRef::flags_t(0), 0, 0);
  map.m_feats = f; map.m_numFeats = 2;
  // two features need at most 3 words (a 32-bit feature skips to a fresh word); the vector is laid out directly
  ASSUME(bits / 32 + 1 <= 3);
  const unsigned nwords = 3;
  Features fv;
  fv.m_first = vh_new<uint32>(nwords); fv.m_last = fv.m_end = fv.m_first + nwords; fv.m_pMap = &map;
  for (unsigned i = 0; i < nwords; ++i) fv[i] = nondet_u32();
  unsigned which = nondet_u8() & 1;
  const gr_feature_ref *target = static_cast<const gr_feature_ref *>(&f[which]);
  const gr_feature_ref *other = static_cast<const gr_feature_ref *>(&f[1 - which]);
  gr_feature_val *gfv = static_cast<gr_feature_val *>(&fv);
  uint32_t before[4]; for (unsigned i = 0; i < nwords && i < 4; ++i) before[i] = fv[i];
  uint16_t other0 = gr_fref_feature_value(other, gfv);
  uint16_t v = nondet_u16();
  int ok = gr_fref_set_feature_value(target, v, gfv);
  uint32_t tmax = which ? max2 : max1;
  ASSERT((ok != 0) == (v <= tmax), "set succeeds exactly when the value does not exceed the largest defined setting (any 16-bit value if none)");
  if (ok) {
    ASSERT(gr_fref_feature_value(target, gfv) == v, "get returns the value just set");
    ASSERT(gr_fref_feature_value(other, gfv) == other0, "every other feature's value is unchanged");
  } else {
    for (unsigned i = 0; i < nwords && i < 4; ++i) ASSERT(fv[i] == before[i], "failed set leaves the feature values unchanged");
  }
  // clone compares equal to its source
  gr_feature_val *c = gr_featureval_clone(gfv);
  ASSUME(c != 0);
  ASSERT(*static_cast<Features *>(c) == fv, "clone compares equal to its source");
  gr_featureval_destroy(c);
  fv.m_first = fv.m_last = fv.m_end = 0;     // storage is harness-owned
  VH_END();
}
