// Representation invariants as plain predicates (DESIGN 2.2): assumed before and asserted after one primitive.
#pragma once
#include "world.h"

enum { VH_MAXWALK = NS + NSPARE + 2 };

static bool in_stream(const World &w, const Slot *x);
// INV_stream: next from m_first visits exactly m_numGlyphs slots of this segment, ends at m_last, prev is the inverse,
// and no slot of the stream is on the free list.
static __attribute__((noinline)) bool inv_stream(const World &w) {
  const Segment *seg = w.seg;
  const Slot *s = seg->m_first, *prev = 0; size_t n = 0;
  for (unsigned k = 0; k < VH_MAXWALK && s; ++k) {
    if (!vh_in_slots(w, s)) return false;
    if (s->m_prev != prev) return false;
    prev = s; s = s->m_next; ++n;
  }
  if (s != 0) return false;                       // did not terminate: cycle or too long
  if (n != seg->m_numGlyphs || seg->m_last != prev) return false;
  // free list disjoint from the stream
  const Slot *f = seg->m_freeSlots;
  for (unsigned k = 0; k < VH_MAXWALK && f; ++k) { if (in_stream(w, f)) return false; f = f->m_next; }
  return true;
}

static __attribute__((noinline)) bool in_stream(const World &w, const Slot *x) {
  const Slot *t = w.seg->m_first;
  for (unsigned j = 0; j < VH_MAXWALK && t; ++j) { if (t == x) return true; t = t->m_next; }
  return false;
}

static __attribute__((noinline)) unsigned stream_pos(const World &w, const Slot *x) {
  const Slot *t = w.seg->m_first; unsigned j = 0;
  for (; j < VH_MAXWALK && t; ++j) { if (t == x) return j; t = t->m_next; }
  return 0xffff;
}

// INV_assoc: every live slot's before/after/original index a char-info
static __attribute__((noinline)) bool inv_assoc(const World &w) {
  const Slot *t = w.seg->m_first;
  for (unsigned j = 0; j < VH_MAXWALK && t; ++j) {
    if (t->m_before >= NC || t->m_after >= NC || t->m_original >= NC) return false;
    t = t->m_next;
  }
  return true;
}

// INV_forest over the slot array: parent chains acyclic and inside the array; x->parent == p  <=>  x occurs exactly once in
// p's child/sibling chain; chains are duplicate-free and NULL-terminated.  'skip' (may be 0) is ignored as a chain owner.
static __attribute__((noinline)) bool forest_parent_chain_ok(const World &w, const Slot *x) {
  const unsigned T = NS + NSPARE;
  const Slot *p = x->m_parent;
  for (unsigned k = 0; k < T + 1 && p; ++k) { if (!vh_in_slots(w, p)) return false; p = p->m_parent; }
  return p == 0;
}
static __attribute__((noinline)) bool chain_has(const Slot *head, const Slot *y, unsigned upto) {
  const Slot *d = head;
  for (unsigned m = 0; m < upto && d; ++m) { if (d == y) return true; d = d->m_sibling; }
  return false;
}
static __attribute__((noinline)) bool forest_child_chain_ok(const World &w, const Slot *x) {
  const unsigned T = NS + NSPARE;
  const Slot *c = x->m_child;
  for (unsigned k = 0; k < T + 1 && c; ++k) {
    if (!vh_in_slots(w, c) || c->m_parent != x) return false;
    if (chain_has(x->m_child, c, k)) return false;        // duplicate
    c = c->m_sibling;
  }
  return c == 0;
}
static __attribute__((noinline)) bool forest_children_listed(const World &w, const Slot *x) {
  const unsigned T = NS + NSPARE;
  for (unsigned j = 0; j < T; ++j) {
    const Slot *y = w.sl[j];
    if (y->m_parent == x && !chain_has(x->m_child, y, T + 1)) return false;
  }
  return true;
}
static __attribute__((noinline)) bool inv_forest(const World &w) {
  const unsigned T = NS + NSPARE;
  for (unsigned i = 0; i < T; ++i) {
    const Slot *x = w.sl[i];
    if (!forest_parent_chain_ok(w, x) || !forest_child_chain_ok(w, x) || !forest_children_listed(w, x)) return false;
  }
  return true;
}
