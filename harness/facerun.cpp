// C05 / C03 (composition step): Face::runGraphite is the only place where the char-info side of the association is (re)built
// - Segment::associateChars between the substitution and the positioning phase.  With the pass machinery replaced by a stub that
// answers arbitrarily (the passes keep INV_stream/INV_assoc: slots.cpp lemmas), the lemma is: whenever runGraphite succeeds, every
// char-info names slot indices and every slot carries its stream index - for every font phase layout (also fonts without any
// substitution pass), direction and flag value.
#include "invariants.h"
extern "C" bool vh_stub_silf_run(const Silf *self, Segment *seg, uint8 firstPass, uint8 lastPass, int dobidi) asm("_ZNK9graphite24Silf11runGraphiteEPNS_7SegmentEhhi");
static unsigned vh_runs; static uint8 vh_first[3], vh_last[3];
bool vh_stub_silf_run(const Silf *, Segment *, uint8 firstPass, uint8 lastPass, int) {
  if (vh_runs < 3) { vh_first[vh_runs] = firstPass; vh_last[vh_runs] = lastPass; }
  ++vh_runs;
  return nondet_bool();
}
VH_ENTRY vh_face_run() {
  World w; vh_make_face(w); vh_make_segment(w);
  ASSUME(inv_stream(w) && inv_assoc(w));
  for (unsigned i = 0; i < NS; ++i) { w.sl[i]->m_index = nondet_u32(); ASSUME((int)w.sl[i]->m_before >= 0 && (int)w.sl[i]->m_after >= 0); }
  for (unsigned c = 0; c < NC; ++c) { w.ci[c].m_before = -1; w.ci[c].m_after = -1; }        // as Segment::appendSlot leaves the char side
  w.silf->m_numPasses = nondet_u8() & 3; w.silf->m_pPass = nondet_u8() & 3; w.silf->m_sPass = nondet_u8() & 3; w.silf->m_bPass = nondet_bool() ? 0xFF : (nondet_u8() & 3);
  ASSUME(w.silf->m_sPass <= w.silf->m_pPass && w.silf->m_pPass <= w.silf->m_numPasses);
  w.silf->m_flags = nondet_u8() & ~0x20;                 // collision info (initCollisions) is outside this lemma
  w.seg->m_dir = nondet_u8() & 3 & ~2;                   // mirroring (doMirror) outside this lemma
  vh_runs = 0;
  bool ok = w.face->Face::runGraphite(w.seg, w.silf);
  ASSERT(vh_runs >= 1 && vh_first[0] == 0 && vh_last[0] == w.silf->m_pPass, "first the passes before the positioning phase");
  if (ok) {
    ASSERT(vh_runs == 2 && vh_first[1] == w.silf->m_pPass && vh_last[1] == w.silf->m_numPasses, "then the positioning passes");
    for (unsigned i = 0; i < NS; ++i) ASSERT(w.sl[i]->m_index == i, "gr_slot_index values are 0..n-1 in stream order");
    for (unsigned c = 0; c < NC; ++c)
      ASSERT(w.ci[c].before() >= 0 && w.ci[c].before() < (int)NS && w.ci[c].after() >= 0 && w.ci[c].after() < (int)NS, "char-info before/after are slot indices");
  }
  VH_END();
}
