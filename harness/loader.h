// Table callbacks as an ownership oracle (DESIGN 2.4): every buffer handed out by get_table is a fresh exact-size heap object
// with arbitrary contents; release_table frees it.  cbmc's own checks then decide use-after-release (deallocated object),
// double release (double free) and out-of-bounds reads; 'outstanding' and 'sealed' decide the counting clauses.
#pragma once
#include "common.h"
#include "inc/Main.h"
#include "inc/Face.h"
#include "inc/TtfUtil.h"
using namespace graphite2;

struct Provider {
  int outstanding, handed_out, released;
  bool sealed;                 // set once gr_make_face has returned with preloadAll: no further get_table allowed
  const void *last;            // most recent buffer handed out and not yet released (single-table harnesses)
  size_t len;                  // length of the table served
  uint32_t only_tag;           // 0 = serve every tag
  int64_t hdr_word;            // >= 0: bytes 4..7 of the table (compression scheme + announced size) are this concrete word;
};                             //       the allocation size must be concrete for the solver, the query list enumerates scheme and size
static Provider g_prov;

static const void *vh_get_table(const void *h, unsigned int tag, size_t *len) {
  Provider *p = (Provider *)h;
  ASSERT(!p->sealed, "no get_table call after gr_make_face returned with preloadAll");
  if (p->only_tag && tag != p->only_tag) { *len = 0; return 0; }
  uint8_t *b = vh_bytes(p->len);
  if (p->len >= 8 && p->hdr_word >= 0) { b[4] = (uint8_t)(p->hdr_word >> 24); b[5] = (uint8_t)(p->hdr_word >> 16); b[6] = (uint8_t)(p->hdr_word >> 8); b[7] = (uint8_t)p->hdr_word; }
#ifdef VH_PIN_BYTES
  VH_PIN_BYTES(b);              // straight-line constant stores defined by the harness (counts that size allocations must fold to constants in symex)
#endif
#ifdef VH_KEEP_COPY     /* the harness keeps its own copy of what was served (the library releases the buffer) */
  for (size_t i_ = 0; i_ < p->len && i_ < sizeof vh_copy; ++i_) vh_copy[i_] = b[i_];
#endif
  ++p->outstanding; ++p->handed_out; p->last = b;
  *len = p->len;
  return b;
}
static void vh_release_table(const void *h, const void *buf) {
  Provider *p = (Provider *)h;
  ASSERT(buf != 0 && buf == p->last, "release_table gets exactly the pointer get_table returned, once");
  p->last = 0;
  --p->outstanding; ++p->released;
  free((void *)buf);
}
static Face *vh_raw_face(Provider *p, bool with_release) {
  Face *f = vh_new<Face>();
  memset((void *)f, 0, sizeof(Face));
  f->m_ops.size = sizeof(gr_face_ops);
  f->m_ops.get_table = vh_get_table;
  f->m_ops.release_table = with_release ? vh_release_table : 0;
  f->m_appFaceHandle = p;
  return f;
}
