// C19: line breaking and justification never corrupt the glyph stream
#include "invariants.h"
#include "graphite2/Segment.h"
#ifndef BRK
#define BRK 1            /* break before slot BRK (interior) */
#endif
#ifndef AT
#define AT 0             /* slot before which the line-end sentinel is added; NS = after the last slot */
#endif

// walk a chain of slots from 'first': k-th visited slot must be want[k]; prev must be the inverse; chain ends after n slots
static __attribute__((noinline)) bool chain_is(Slot *first, Slot **want, unsigned n) {
  Slot *s = first, *prev = 0;
  for (unsigned k = 0; k < n; ++k) { if (s != want[k] || s->m_prev != prev) return false; prev = s; s = s->m_next; }
  return s == 0;
}

// ---- gr_slot_linebreak_before: only the three links across the cut are nulled; both lines keep their slots in order
VH_ENTRY vh_linebreak() {
  World w; vh_make_face(w); vh_make_segment(w); vh_make_forest(w);
  ASSUME(inv_stream(w));
  uint16 gids[NS]; for (unsigned i = 0; i < NS; ++i) gids[i] = w.sl[i]->m_glyphid;
  gr_slot_linebreak_before(static_cast<gr_slot *>(w.sl[BRK]));
  ASSERT(chain_is(w.sl[0], w.sl, BRK), "first line: same slots, same order, doubly linked, NULL terminated");
  ASSERT(chain_is(w.sl[BRK], w.sl + BRK, NS - BRK), "second line: same slots, same order, doubly linked, NULL terminated");
  ASSERT(w.sl[BRK - 1]->m_sibling == 0, "base chain is cut as well");
  for (unsigned i = 0; i < NS; ++i) ASSERT(w.sl[i]->m_glyphid == gids[i], "glyph ids untouched");
  VH_END();
}

// ---- Segment::addLineEnd + delLineEnd (the sentinel slots justify() inserts for fonts that ask for them) restore the line exactly
VH_ENTRY vh_lineend() {
  World w; vh_make_face(w); vh_make_segment(w);
  ASSUME(inv_stream(w));
  w.silf->m_gEndLine = nondet_u16();
  Slot *free0 = w.seg->m_freeSlots;
  Slot *n = AT < NS ? w.sl[AT] : 0;
  Slot *e = w.seg->addLineEnd(n);
  ASSERT(e == free0 && e != 0, "sentinel comes from the free list");
  if (n) ASSERT(e->m_next == n && n->m_prev == e && e->m_prev == (AT ? w.sl[AT ? AT - 1 : 0] : 0), "sentinel sits directly before the given slot");
  else ASSERT(e->m_prev == w.sl[NS - 1] && w.sl[NS - 1]->m_next == e && e->m_next == 0, "sentinel appended after the last slot");
  ASSERT(e->m_before < NC && e->m_after < NC, "sentinel's associations index char-infos");
  w.seg->delLineEnd(e);
  ASSERT(chain_is(w.sl[0], w.sl, NS) && w.seg->m_first == w.sl[0] && w.seg->m_last == w.sl[NS - 1], "after removing the sentinel the line is exactly as before");
  ASSERT(w.seg->m_freeSlots == e && inv_stream(w), "sentinel slot is back on the free list; stream well formed");
  VH_END();
}

// ---- Segment::justify on one line (fonts without justification levels or passes): returns, the line keeps its slots in order, m_first/m_last are
// restored, the result and every origin are finite, and the slots' glyph ids are unchanged.  Bit-precise IEEE-754.
#ifndef SFLAGS
#define SFLAGS 0
#endif
#ifndef JWBOUND
#define JWBOUND 1048576.f
#endif
struct SJ24 { SlotJustify *next; int16 values[8]; };      // one SlotJustify record of a font without justification levels (SlotJustify::size_of(1) bytes)
static_assert(sizeof(SJ24) == 24, "SlotJustify::size_of(1)");
static __attribute__((noinline)) SlotJustify *make_pool() {
  SlotJustify *head = 0;
  for (unsigned i = 0; i < NS + NSPARE; ++i) {
    SJ24 *j = vh_new<SJ24>(); j->next = head; head = reinterpret_cast<SlotJustify *>(j);
    j->values[0] = (int16)nondet_u16(); j->values[1] = (int16)nondet_u16(); j->values[2] = (int16)nondet_u16(); j->values[3] = (int16)nondet_u16();
    j->values[4] = (int16)nondet_u16(); j->values[5] = (int16)nondet_u16(); j->values[6] = (int16)nondet_u16(); j->values[7] = (int16)nondet_u16();
  }
  return head;
}
VH_ENTRY vh_justify() {
  World w; vh_make_face(w); vh_make_segment(w); vh_slot_floats(w);
  ASSUME(inv_stream(w));
  for (unsigned i = 0; i < NS; ++i) { w.sl[i]->m_parent = w.sl[i]->m_child = w.sl[i]->m_sibling = 0; ASSUME(w.sl[i]->m_glyphid < NG && w.sl[i]->m_realglyphid < NG); }
  w.silf->m_flags = SFLAGS; w.silf->m_dir = 0; w.silf->m_bPass = 0; w.silf->m_numPasses = 0; w.silf->m_jPass = 0; w.silf->m_pPass = 0; w.silf->m_numJusts = 0;
  w.silf->m_gEndLine = 0;
#ifdef JDIR      /* text direction and font direction given by the query: justify reverses the line on entry and again on exit when they differ */
  w.seg->m_dir = (JDIR) & 1; w.silf->m_dir = ((JDIR) >> 1) & 1; w.silf->m_bPass = 0xff;          // JDIR enumerates (text direction, font direction); no bidi pass
  for (unsigned i = 0; i < NS; ++i) ASSUME(w.sl[i]->m_bidiCls != -1 && w.sl[i]->m_bidiCls != 16);        // classes known (no glyph attribute lookup); no marks: how reverseSlots moves mark runs is decided by the reverse/reverse_line lemmas
#else
  w.seg->m_dir = 0;                                         // no reversal in this lemma (reverseSlots is decided in C03)
#endif
  w.seg->linkClusters(w.seg->m_first, w.seg->m_last);        // base chain as Segment::finalise leaves it
#ifdef PREPOOL   /* the segment's SlotJustify free list already holds one record per slot (the state after any earlier justify call); the
                    pool-growth path of Segment::newJustify is exercised by the NS = 1 queries, which run without this */
  w.seg->m_freeJustifies = make_pool();
#endif
  uint16 gids[NS]; for (unsigned i = 0; i < NS; ++i) gids[i] = w.sl[i]->m_glyphid;
#ifdef JCONCRETE   /* quick tier for >= 2 slots: the metrics are fixed numbers (advance 10, boxes 0..8, no shifts, width 100) so that the float code
                      folds away in symex; glyph ids, associations, flags and the link structure stay arbitrary.  What justify does to the links
                      does not depend on the metrics beyond the branches these values take; the symbolic-metric queries are in the thorough tier */
  for (unsigned i = 0; i < NS; ++i) {
    Slot &s = *w.sl[i];
    s.m_position = Position(10.f * i, 0.f); s.m_shift = Position(0.f, 0.f); s.m_advance = Position(10.f, 0.f);
    s.m_attach = Position(0.f, 0.f); s.m_with = Position(0.f, 0.f); s.m_just = 0.f;
  }
  for (unsigned g = 0; g < NG; ++g) { GlyphFace *gf = const_cast<GlyphFace *>(w.glyphs[g]); gf->m_bbox = Rect(Position(0.f, 0.f), Position(8.f, 8.f)); gf->m_advance = Position(10.f, 0.f); }
#endif
  float width = nondet_fin(JWBOUND);
#ifdef JCONCRETE
  width = 100.f;
#endif
#ifdef NEGWIDTH  /* a negative width asks for nothing (no line-end contextuals: SFLAGS == 0): the early exit must leave the line as it found it */
  ASSUME(width < 0);
#if NEGWIDTH == 2   /* quick tier: one concrete negative width (the symbolic-width query needs ~170 s: the solver, not symex, prunes the dead justification code) */
  width = -1.0f;
#endif
#endif
  unsigned jf = nondet_u8() & 3;
  float res = w.seg->justify(w.sl[0], 0, width, justFlags(jf), 0, 0);
  ASSERT(res == res && res <= 3.0e38f && res >= -3.0e38f, "returned width is a finite number");
  ASSERT(chain_is(w.sl[0], w.sl, NS) && w.seg->m_first == w.sl[0] && w.seg->m_last == w.sl[NS - 1], "the line is the same doubly linked chain of the same slots; first/last restored");
  for (unsigned i = 0; i < NS; ++i) {
    ASSERT(w.sl[i]->m_glyphid == gids[i], "glyph ids unchanged (no justification passes)");
    Position o = w.sl[i]->origin();
    ASSERT(o.x == o.x && o.y == o.y && o.x <= 3.0e38f && o.x >= -3.0e38f, "origins finite");
  }
  ASSERT(inv_stream(w), "stream well formed");
  VH_END();
}

// ---- Segment::reverseSlots after the segment has been cut into lines (as Segment::justify calls it when the text direction differs from
// the font's): the first line is reversed in place - same slots, well-formed chain - and the second line is not touched.
static __attribute__((noinline)) bool line_wellformed(Slot *first, Slot **members, unsigned n) {
  Slot *s = first, *prev = 0; unsigned cnt = 0; bool seen[NS];
  for (unsigned i = 0; i < NS; ++i) seen[i] = false;
  for (unsigned k = 0; k < n + 1 && s; ++k) {
    if (s->m_prev != prev) return false;
    bool member = false;
    for (unsigned i = 0; i < n; ++i) if (members[i] == s) { if (seen[i]) return false; seen[i] = true; member = true; }
    if (!member) return false;
    prev = s; s = s->m_next; ++cnt;
  }
  return s == 0 && cnt == n;
}
VH_ENTRY vh_reverse_line() {
  World w; vh_make_face(w); vh_make_segment(w);
  ASSUME(inv_stream(w));
  for (unsigned i = 0; i < NS; ++i) ASSUME(w.sl[i]->m_bidiCls != -1);        // classes known (no glyph attribute lookup in this lemma)
  gr_slot_linebreak_before(static_cast<gr_slot *>(w.sl[BRK]));
  w.seg->reverseSlots();
  ASSERT(line_wellformed(w.seg->m_first, w.sl, BRK), "first line: still a well-formed chain of exactly its own slots");
  ASSERT(chain_is(w.sl[BRK], w.sl + BRK, NS - BRK), "second line untouched");
  VH_END();
}
