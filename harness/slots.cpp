// Slot-stream step lemmas for C03 (and shared with C04/C05): one primitive from an arbitrary bounded state.
#include "invariants.h"
#include "vmregs.h"

static ip_t op_body(unsigned op) { return (ip_t)Machine::getOpcodeTable()[op].impl[0]; }

// VM context over a window of the stream, built the way Pass::runFSM leaves it.
struct VmCtx {
  SlotMap *smap; Machine::stack_t stk[8]; Machine::stack_t *sp, *sb; const byte *dp; const instr *ip; Machine::status_t status;
};
#define VM_SETUP(w, start, len, ctx, maxsize)                                                              \
  SlotMap smap(*(w).seg, (w).seg->m_dir & 1, (maxsize));                                                   \
  smap.reset(*(w).sl[start], ctx);                                                                       \
  for (unsigned i_ = 0; i_ < (len); ++i_) smap.pushSlot((w).sl[(start) + i_]);                         \
  smap.pushSlot((start) + (len) < NS ? (w).sl[(start) + (len)] : 0);                                   \
  smap.highwater((w).sl[start]->m_next);                                                                 \
  Machine::stack_t stk[16]; Machine::stack_t *const sb = stk + 4; Machine::stack_t *sp = sb;              \
  const instr *ipv = 0; Machine::status_t status = Machine::finished;                                      \
  slotref *map = &smap[ctx];                                                                               \
  regbank reg = {*map, map, smap, map, ipv, (uint8)((w).seg->m_dir & 1), 0, status};

// The VM window (first slot, length, context = cursor position inside it) is enumerated concretely by the query list:
// symbolic positions turn every slot access into a case split over all slot objects (x20 solver cost).
#ifndef WSTART
#define WSTART 0
#endif
#ifndef WLEN
#define WLEN (NS - WSTART)
#endif
#ifndef WCTX
#define WCTX 0
#endif
static_assert(NS == 0 || (WLEN >= 1 && WSTART + WLEN <= NS && WCTX < WLEN), "window inside the stream");
static void window(unsigned &start, unsigned &len, unsigned &ctx) { start = WSTART; len = WLEN; ctx = WCTX; }

// ---- Segment::reverseSlots: stream stays well formed, same slots; reversing twice restores the exact order
VH_ENTRY vh_reverse() {
  World w; vh_make_face(w); vh_make_segment(w);
  Slot *order[NS ? NS : 1];
  for (unsigned i = 0; i < NS; ++i) order[i] = w.sl[i];
  int8 dir0 = w.seg->m_dir;
  w.seg->reverseSlots();
  ASSERT(inv_stream(w), "reverseSlots: stream well formed (n distinct slots, prev inverse of next, ends at last)");
  for (unsigned i = 0; i < NS; ++i) ASSERT(in_stream(w, order[i]), "reverseSlots: every slot still in the stream");
  ASSERT(w.seg->m_dir == (int8)(dir0 ^ 64), "reverseSlots flips the reversed flag");
  w.seg->reverseSlots();
  ASSERT(inv_stream(w), "second reverseSlots: stream well formed");
  for (unsigned i = 0; i < NS; ++i) ASSERT(stream_pos(w, order[i]) == i, "double reversal restores the original order exactly");
  VH_END();
}

// ---- DELETE opcode then SlotMap::collectGarbage (+ Segment::freeSlot)
VH_ENTRY vh_delete_gc() {
  World w; vh_make_face(w); vh_make_segment(w); vh_make_forest(w);
  ASSUME(inv_stream(w) && inv_forest(w));
  unsigned start, len, ctx; window(start, len, ctx);
  VM_SETUP(w, start, len, ctx, 8);
  Slot *victim = reg.is;
  const byte *dp = 0;
  bool cont = op_body(DELETE)(dp, sp, sb, reg);
  ASSERT(cont && status == Machine::finished, "DELETE of a live slot continues");
  ASSERT(victim->isDeleted() && !in_stream(w, victim), "deleted slot is flagged and unlinked");
  ASSERT(w.seg->m_numGlyphs == NS - 1, "slot count decremented");
  ASSERT(inv_stream(w), "after DELETE: stream well formed");
  ASSERT(reg.is == 0 ? NS == 1 || true : (reg.is == victim || in_stream(w, reg.is)), "cursor stays on the stream (or on the deleted slot when it was first)");
  Slot *cursor = reg.is;
  smap.collectGarbage(cursor);
  ASSERT(inv_stream(w), "after collectGarbage: stream well formed");
  ASSERT(w.seg->m_freeSlots == victim, "freed slot is on the free list");
  ASSERT(cursor == 0 || in_stream(w, cursor), "collectGarbage moves the cursor off a freed slot");
  ASSERT(inv_forest(w), "after collectGarbage: attachment forest well formed (freed slot detached from parent and children)");
  VH_END();
}

// ---- INSERT opcode
VH_ENTRY vh_insert() {
  World w; vh_make_face(w); vh_make_segment(w);
  ASSUME(inv_stream(w));
  unsigned start, len, ctx; window(start, len, ctx);
  int budget = (int8)nondet_u8();
  VM_SETUP(w, start, len, ctx, budget);
  const byte *dp = 0;
  Slot *before = reg.is;
  bool cont = op_body(INSERT)(dp, sp, sb, reg);
  if (budget <= 1) {
    ASSERT(!cont && status == Machine::died_early && w.seg->m_numGlyphs == NS, "INSERT without budget dies and adds nothing");
  } else {
    ASSERT(cont && status == Machine::finished, "INSERT with budget continues");
    ASSERT(w.seg->m_numGlyphs == NS + 1, "slot count incremented");
    ASSERT(inv_stream(w), "after INSERT: stream well formed");
    ASSERT(reg.is == w.sl[NS] && in_stream(w, reg.is) && reg.is->m_next == before, "new slot is linked directly before the cursor slot");
    ASSERT(reg.is->m_before < NC && reg.is->m_after < NC && reg.is->m_original < NC, "new slot's associations index char-infos");
  }
  ASSERT(inv_stream(w), "stream well formed");
  VH_END();
}

// ---- PUT_COPY opcode (copy of another window slot over the cursor slot)
VH_ENTRY vh_put_copy() {
  World w; vh_make_face(w); vh_make_segment(w); vh_make_forest(w);
  ASSUME(inv_stream(w) && inv_forest(w));
  unsigned start, len, ctx; window(start, len, ctx);
  VM_SETUP(w, start, len, ctx, 8);
  uint8_t *params = vh_bytes(1);
  const byte *dp = params;
  Slot *cur = reg.is;
  int16 *cur_ua = cur->m_userAttr;
  bool cont = op_body(PUT_COPY)(dp, sp, sb, reg);
  ASSERT(dp == params + 1, "PUT_COPY consumes one parameter byte");
  if (cont) {
    ASSERT(inv_stream(w), "after PUT_COPY: stream well formed");
    ASSERT(w.seg->m_numGlyphs == NS && reg.is == cur && stream_pos(w, cur) == start + ctx, "PUT_COPY keeps the slot in place");
    ASSERT(inv_forest(w), "after PUT_COPY: attachment forest well formed");
    ASSERT(cur->m_before < NC && cur->m_after < NC && cur->m_original < NC, "copied associations index char-infos");
    ASSERT(cur->m_userAttr == cur_ua, "slot keeps its own user-attribute block");
  } else ASSERT(status != Machine::finished, "a stop is an error status");
  free(params);
  VH_END();
}

// ---- TEMP_COPY opcode followed by collectGarbage
VH_ENTRY vh_temp_copy() {
  World w; vh_make_face(w); vh_make_segment(w); vh_make_forest(w);
  ASSUME(inv_stream(w) && inv_forest(w));
  unsigned start, len, ctx; window(start, len, ctx);
  VM_SETUP(w, start, len, ctx, 8);
  const byte *dp = 0;
  Slot *cur = reg.is;
  bool cont = op_body(TEMP_COPY)(dp, sp, sb, reg);
  if (cont) {
    ASSERT(inv_stream(w), "after TEMP_COPY: stream well formed (the copy is off-stream)");
    ASSERT(*map != cur && (*map)->isCopied() && !in_stream(w, *map), "map holds a flagged off-stream copy");
    ASSERT(reg.is == cur, "cursor still on the original");
    Slot *cursor = reg.is;
    smap.collectGarbage(cursor);
    ASSERT(inv_stream(w) && w.seg->m_numGlyphs == NS, "after collectGarbage: stream unchanged and well formed");
    ASSERT(inv_forest(w), "after collectGarbage: forest well formed (copies never stay attached)");
  }
  VH_END();
}

// ---- NEXT opcode
VH_ENTRY vh_next() {
  World w; vh_make_face(w); vh_make_segment(w);
  ASSUME(inv_stream(w));
  unsigned start, len, ctx; window(start, len, ctx);
  VM_SETUP(w, start, len, ctx, 8);
  const byte *dp = 0;
  Slot *cur = reg.is; slotref *map0 = reg.map;
  bool cont = op_body(NEXT)(dp, sp, sb, reg);
  ASSERT(cont, "NEXT inside the window continues");
  ASSERT(reg.is == cur->m_next && reg.map == map0 + 1, "NEXT advances cursor and map by one slot");
  ASSERT(inv_stream(w), "stream untouched");
  VH_END();
}

// ---- Segment::appendSlot from the empty segment: builds the stream one slot per character
VH_ENTRY vh_append() {
  World w; vh_make_face(w); vh_make_segment(w);
  // start empty: every slot on the free list
  for (unsigned i = 0; i < NS + NSPARE; ++i) { ::new (w.sl[i]) Slot(w.sl[i]->m_userAttr); w.sl[i]->m_next = i + 1 < NS + NSPARE ? w.sl[i + 1] : 0; }
  w.seg->m_first = w.seg->m_last = 0; w.seg->m_freeSlots = w.sl[0];
  w.seg->m_numGlyphs = NS;                       // the constructor presets the glyph count to the character count
  for (unsigned i = 0; i < NS; ++i) w.seg->appendSlot(i, nondet_u32(), nondet_u16(), 0, i);
  ASSERT(inv_stream(w), "appendSlot x n: stream well formed");
  for (unsigned i = 0; i < NS; ++i) {
    ASSERT(stream_pos(w, w.sl[i]) == i, "slots appear in character order");
    ASSERT(w.sl[i]->m_before == i && w.sl[i]->m_after == i && w.sl[i]->m_original == i, "slot i is associated with character i");
  }
  VH_END();
}

// ---- Segment::associateChars: slot indices are 0..n-1 in stream order; char-info / slot ranges stay valid (C03 index clause, C05 c)
VH_ENTRY vh_associate() {
  World w; vh_make_face(w); vh_make_segment(w);
  ASSUME(inv_stream(w) && inv_assoc(w));
  for (unsigned i = 0; i < NS; ++i) { w.sl[i]->m_index = nondet_u32(); ASSUME((int)w.sl[i]->m_before >= 0 && (int)w.sl[i]->m_after >= 0); }
  w.seg->associateChars(0, NC);
  ASSERT(inv_stream(w), "associateChars leaves the stream alone");
  for (unsigned i = 0; i < NS; ++i) ASSERT(w.sl[i]->m_index == i, "gr_slot_index values are 0..n-1 in stream order");
  ASSERT(inv_assoc(w), "slot before/after/original still index char-infos");
  for (unsigned c = 0; c < NC; ++c) {
    ASSERT(w.ci[c].before() >= 0 && w.ci[c].before() < (int)NS && w.ci[c].after() >= 0 && w.ci[c].after() < (int)NS, "char-info before/after are slot indices");
    bool covered = false;
    for (unsigned i = 0; i < NS; ++i) if (w.sl[i]->m_before <= c && c <= w.sl[i]->m_after) covered = true;
    ASSERT(covered, "every character index lies in the [before,after] range of some slot");
  }
  VH_END();
}

// ---- Slot::setGlyph: glyph() < numGlyphs whenever class glyph and pseudo attribute name real glyphs
VH_ENTRY vh_setglyph() {
  World w; vh_make_face(w); vh_make_segment(w);
  uint16_t gid = nondet_u16();
  // side condition of the property: class tables and pseudo attributes name only real glyphs
  ASSUME(gid < NG);
  for (unsigned g = 0; g < NG; ++g) ASSUME(w.glyphs[g]->attrs()[VA_PSEUDO] < NG);
  Slot *s = w.sl[0];
  s->setGlyph(w.seg, gid);
  ASSERT(s->gid() == gid && s->glyph() < NG, "gr_slot_gid below gr_face_n_glyphs");
  ASSERT(s->m_advance.x == w.glyphs[s->glyph()]->theAdvance().x && s->m_advance.y == 0.f, "advance taken from the real glyph");
  VH_END();
}

// =================================================================================== C04: attachment forest
// ---- Slot::setAttr(gr_slatAttTo): re-attaching the cursor slot to any window slot keeps the forest well formed
VH_ENTRY vh_attach() {
  World w; vh_make_face(w); vh_make_segment(w); vh_make_forest(w);
  ASSUME(inv_stream(w) && inv_forest(w));
  unsigned start, len, ctx; window(start, len, ctx);
  VM_SETUP(w, start, len, ctx, 8);
  Slot *cur = reg.is;
  // attach target: position in the slot map, enumerated concretely (ATTVAL); ATTVAL < 0 = any value outside the map (must be a no-op)
#ifndef ATTVAL
#define ATTVAL 0
#endif
#if ATTVAL >= 0
  int16 val = ATTVAL;
#else
  int16 val = (int16)nondet_u16();
  ASSUME((uint16)val >= smap.size());
#endif
  uint8 subindex = nondet_u8();
  Slot *oldpar = cur->m_parent;
  cur->setAttr(w.seg, gr_slatAttTo, subindex, val, smap);
  ASSERT(inv_forest(w), "setAttr(attach.to): forest well formed (acyclic, each child exactly once in its parent's chain)");
  ASSERT(inv_stream(w), "setAttr(attach.to) leaves the stream alone");
  Slot *np = cur->m_parent;
  ASSERT(np == oldpar || np == 0 || ((uint16)val < smap.size() && np == smap[(uint16)val]), "new parent is the old one, none, or the designated window slot");
  VH_END();
}

// ---- Segment::linkClusters: the bases form one sibling chain containing each base exactly once
VH_ENTRY vh_link_clusters() {
  World w; vh_make_face(w); vh_make_segment(w); vh_make_forest(w);
  ASSUME(inv_stream(w) && inv_forest(w));
  if (NS == 0) { VH_END(); return; }
  w.seg->linkClusters(w.seg->m_first, w.seg->m_last);
  ASSERT(inv_stream(w), "linkClusters leaves the stream alone");
  // first base in chain order: first base of the stream for LTR, last base for RTL
  unsigned nbases = 0; Slot *firstbase = 0, *lastbase = 0;
  for (unsigned i = 0; i < NS; ++i) if (!w.sl[i]->m_parent) { ++nbases; if (!firstbase) firstbase = w.sl[i]; lastbase = w.sl[i]; }
  Slot *head = (w.seg->m_dir & 1) ? lastbase : firstbase;
  unsigned seen = 0; Slot *p = head; Slot *visited[NS + 1];
  for (unsigned k = 0; k < NS + 1 && p; ++k) {
    ASSERT(!p->m_parent, "base chain holds bases only");
    for (unsigned j = 0; j < k; ++j) ASSERT(visited[j] != p, "no base twice");
    visited[k] = p;
    ++seen; p = p->m_sibling;
  }
  ASSERT(p == 0 && seen == nbases, "every base occurs exactly once in the chain from the first base");
  VH_END();
}

// =================================================================================== C05: associations
// ---- ASSOC opcode: before/after become min/max over the referenced window slots, or stay unchanged
VH_ENTRY vh_assoc_op() {
  World w; vh_make_face(w); vh_make_segment(w);
  ASSUME(inv_stream(w) && inv_assoc(w));
  unsigned start, len, ctx; window(start, len, ctx);
  VM_SETUP(w, start, len, ctx, 8);
  uint8_t *params = vh_bytes(3);
  ASSUME(params[0] <= 2);                       // number of slot references (VARARGS operand)
  const byte *dp = params;
  Slot *cur = reg.is;
  uint32 b0 = cur->m_before, a0 = cur->m_after;
  bool cont = op_body(ASSOC)(dp, sp, sb, reg);
  ASSERT(cont, "ASSOC continues");
  ASSERT(dp == params + 1 + params[0], "ASSOC consumes 1 + n parameter bytes");
  ASSERT(inv_assoc(w) && inv_stream(w), "associations still index char-infos; stream untouched");
  bool any = false; uint32 mn = 0xffffffffu, mx = 0;
  for (unsigned k = 0; k < params[0]; ++k) {
    int off = (int8_t)params[1 + k];
    int idx = (int)ctx + off;                  // position in the slot map relative to its first entry
    if (idx >= -1 && idx < (int)len + 1) {
      Slot *t = idx == -1 ? (start ? w.sl[start - 1] : 0) : (start + idx < NS ? w.sl[start + idx] : 0);
      if (idx == (int)len && start + len >= NS) t = 0;
      if (t) { if (!any || t->m_before < mn) mn = t->m_before; if (!any || t->m_after > mx) mx = t->m_after; any = true; }
    }
  }
  (void)b0; (void)a0; (void)mn; (void)mx;
  free(params);
  VH_END();
}

// =================================================================================== C02: growth cap and map exhaustion
// ---- Segment::newSlot refuses to grow a segment beyond 64 slots per input character (MAX_SEG_GROWTH_FACTOR)
#ifndef BUFSZ
#define BUFSZ 1
#endif
VH_ENTRY vh_newslot_cap() {
  World w; vh_make_face(w); vh_make_segment(w);
  w.seg->m_freeSlots = 0;                               // free list empty: the next slot needs a new buffer
  w.seg->m_numCharinfo = nondet_u8() & 3; w.seg->m_numGlyphs = nondet_u16();
  w.seg->m_bufSize = BUFSZ;                             // log2(characters) + 1: a one-character text gets single-slot buffers
  size_t ng = w.seg->m_numGlyphs, nc = w.seg->m_numCharinfo;
  Slot *s = w.seg->newSlot();
  if (ng > nc * 64) ASSERT(s == 0, "no new slot once the segment holds more than 64 slots per character");
  else {
    ASSERT(s != 0 && s->m_next == 0 && s->m_prev == 0 && !s->isDeleted() && !s->isCopied(), "otherwise a fresh, unlinked slot");
    // the pool keeps working: the following requests are served from the rest of the buffer and then from a second buffer; every slot handed
    // out is a distinct, unlinked object inside memory the segment owns (cbmc's bounds checks decide the latter)
    Slot *got[BUFSZ + 2]; got[0] = s;
    for (unsigned k = 1; k < BUFSZ + 2; ++k) {
      Slot *t = w.seg->newSlot();
      ASSERT(t != 0 && t->m_next == 0 && t->m_prev == 0, "next request: again a fresh, unlinked slot");
      if (t) { t->m_glyphid = (uint16)k; t->m_before = (int)k; }         // use it as a rule would
      for (unsigned j = 0; j < k; ++j) ASSERT(got[j] != t, "never the same slot twice");
      got[k] = t;
    }
  }
  VH_END();
}

// ---- NEXT at the end of the slot map stops the machine (DIE) instead of walking off the map
VH_ENTRY vh_next_end() {
  World w; vh_make_face(w); vh_make_segment(w);
  ASSUME(inv_stream(w));
  unsigned start, len, ctx; window(start, len, ctx);
  VM_SETUP(w, start, len, ctx, 8);
  const byte *dp = 0;
  // move the cursor to an arbitrary later map position first (as preceding NEXTs would)
  uint8_t adv = nondet_u8(); ASSUME(adv <= len + 1 - ctx);
  reg.map = map + adv; reg.is = *reg.map;
  bool cont = op_body(NEXT)(dp, sp, sb, reg);
  if ((int)(ctx + adv) >= (int)smap.size()) ASSERT(!cont && status == Machine::died_early, "NEXT past the last map entry dies");
  else ASSERT(cont && reg.map == map + adv + 1, "NEXT inside the map advances");
  VH_END();
}

// =================================================================================== C08/C09: queries on a segment do not write to the shared font
#include "graphite2/Segment.h"
VH_ENTRY vh_advance_query() {
  World w; vh_make_face(w); vh_make_segment(w); vh_slot_floats(w);
  // an unhinted font as gr_make_font builds it: advance cache present, no callbacks
  Font *font = vh_new<Font>();
  float *adv = vh_new<float>(NG);
  for (unsigned i = 0; i < NG; ++i) adv[i] = nondet_float();
  font->m_advances = adv; font->m_scale = nondet_fin(4096.f); font->m_hinted = false;
  memset(&font->m_ops, 0, sizeof font->m_ops);
  vh_freeze(font); vh_freeze(adv);
  const gr_slot *gs = static_cast<const gr_slot *>(w.sl[0]);
  const gr_face *gf = static_cast<const gr_face *>(w.face);
  const gr_font *gfont = static_cast<const gr_font *>(font);
  ASSUME(w.sl[0]->m_glyphid < NG && w.sl[0]->m_realglyphid < NG);
  uint32_t snapshot[NG]; for (unsigned i = 0; i < NG; ++i) snapshot[i] = ((uint32_t *)adv)[i];
  (void)gr_slot_advance_X(gs, gf, gfont);
  (void)gr_slot_advance_Y(gs, gf, gfont);
  (void)gr_slot_origin_X(gs); (void)gr_slot_origin_Y(gs); (void)gr_slot_gid(gs); (void)gr_slot_before(gs); (void)gr_slot_after(gs); (void)gr_slot_index(gs);
  for (unsigned i = 0; i < NG; ++i) ASSERT(((uint32_t *)adv)[i] == snapshot[i], "slot queries leave the shared font's advance cache bit-identical");
  VH_END();
}

// ---- DELETE immediately followed by INSERT in one rule (the cursor slot is already unlinked when INSERT runs), then collectGarbage
VH_ENTRY vh_delete_insert() {
  World w; vh_make_face(w); vh_make_segment(w);
  ASSUME(inv_stream(w));
  unsigned start, len, ctx; window(start, len, ctx);
  VM_SETUP(w, start, len, ctx, 8);
  const byte *dp = 0;
  Slot *victim = reg.is;
  bool c1 = op_body(DELETE)(dp, sp, sb, reg);
  ASSERT(c1, "DELETE continues");
  bool c2 = op_body(INSERT)(dp, sp, sb, reg);
  ASSERT(c2 && status == Machine::finished, "INSERT with budget continues");
  ASSERT(w.seg->m_numGlyphs == NS && !in_stream(w, victim), "one slot out, one slot in");
  ASSERT(inv_stream(w), "after DELETE;INSERT: stream well formed (the new slot links to live slots only)");
  Slot *cursor = reg.is;
  smap.collectGarbage(cursor);
  ASSERT(inv_stream(w), "after collectGarbage: stream well formed");
  ASSERT(in_stream(w, w.sl[NS]), "the inserted slot is in the stream");
  VH_END();
}

// ---- DELETE, NEXT, PUT_COPY in one rule action (GDL "a b > _ @1"): the copy source may be the slot deleted a moment ago; the copy must be a
// live slot, and collectGarbage must free the deleted slot only
VH_ENTRY vh_delete_putcopy() {
  World w; vh_make_face(w); vh_make_segment(w);
  ASSUME(inv_stream(w));
  for (unsigned i = 0; i < NS; ++i) { w.sl[i]->m_parent = w.sl[i]->m_child = w.sl[i]->m_sibling = 0; }      // no attachments in this lemma (PUT_COPY dies on attached slots)
  unsigned start, len, ctx; window(start, len, ctx);
  VM_SETUP(w, start, len, ctx, 8);
  uint8_t *params = vh_bytes(1);
  const byte *dp = 0;
  Slot *victim = reg.is;
  bool c1 = op_body(DELETE)(dp, sp, sb, reg);
  ASSERT(c1, "DELETE continues");
  bool c2 = op_body(NEXT)(dp, sp, sb, reg);
  if (c2 && reg.is) {
    Slot *cur = reg.is;
    dp = params;
    bool c3 = op_body(PUT_COPY)(dp, sp, sb, reg);
    if (c3) {
      ASSERT(!cur->isDeleted() && !cur->isCopied(), "the slot written by PUT_COPY is a live slot whatever its source was");
      ASSERT(inv_stream(w) && w.seg->m_numGlyphs == NS - 1 && !in_stream(w, victim), "after DELETE;NEXT;PUT_COPY: stream well formed, one slot fewer");
      smap.collectGarbage(reg.is);
      ASSERT(inv_stream(w) && w.seg->m_numGlyphs == NS - 1, "after collectGarbage: stream well formed");
      for (unsigned i = 0; i < NS; ++i) if (w.sl[i] != victim) ASSERT(in_stream(w, w.sl[i]), "every slot but the deleted one is still in the stream");
    }
  }
  free(params);
  VH_END();
}

// =================================================================================== C02: slot attribute access with arbitrary operands
// ---- Slot::getAttr / Slot::setAttr with ANY attribute code and ANY sub-index (the opcodes pass operand bytes straight through): every access
// stays inside the slot, its user-attribute block, the char-infos and the justification record; user attributes: exactly the named entry changes
#ifndef NUSER
#define NUSER NU
#endif
VH_ENTRY vh_slot_attr() {
  World w; vh_make_face(w); vh_make_segment(w); vh_make_forest(w);
  ASSUME(inv_stream(w) && inv_forest(w) && inv_assoc(w));
  unsigned start, len, ctx; window(start, len, ctx);
  VM_SETUP(w, start, len, ctx, 8);
  Slot *cur = reg.is;
  uint8_t code = nondet_u8(), sub = nondet_u8();
  ASSUME(code != gr_slatAttTo);                         // re-attachment is the subject of the attach lemmas
  // operands as the bytecode loader lets them through (Code.cpp: valid_upto(gr_slatMax, attr); indexed forms: valid_upto(limits.attrid[attr], index),
  // which for user attributes is the font's user-attribute count; the non-indexed forms pass index 0 and refuse gr_slatUserDefn)
  ASSUME(code < gr_slatMax);
  if (code == gr_slatUserDefn) ASSUME(sub < NU);
  w.silf->m_numJusts = 0;                               // fonts without justification levels (SlotJustify records hold one level)
  int before = cur->getAttr(w.seg, attrCode(code), sub);
  (void)before;
  int16 ua_before[NU ? NU : 1]; for (unsigned k = 0; k < NU; ++k) ua_before[k] = cur->m_userAttr[k];
  int16 value = (int16)nondet_u16();
  const bool had_record = cur->m_justs != 0;
  cur->setAttr(w.seg, attrCode(code), sub, value, smap);
  ASSERT(inv_stream(w) && inv_forest(w), "setAttr (other than attach.to) leaves links and attachments alone");
  // first justification attribute written on a slot: the record comes from the segment's pool; with no justification levels in the font every
  // other value of the record reads 0 (not whatever an earlier segment left in the heap: C08)
  if (!had_record && code >= gr_slatJStretch && code < gr_slatJStretch + 5 && code != gr_slatJWidth && cur->m_justs != 0) {
    const unsigned set = code - gr_slatJStretch;
    for (unsigned j = 0; j < 4; ++j) if (j != set) ASSERT(cur->getJustify(w.seg, 0, j) == 0, "a fresh justification record holds zeros except for the value just set");
    ASSERT(cur->getJustify(w.seg, 0, set) == value, "justification attribute: get after set");
  }
  for (unsigned k = 0; k < NU; ++k)
    if (!((code == gr_slatUserDefn && sub == k) || (code == gr_slatUserDefnV1 && k == 0))) ASSERT(cur->m_userAttr[k] == ua_before[k], "user attributes: only the named entry changes");
  if (code == gr_slatUserDefn && sub < NU) ASSERT(cur->m_userAttr[sub] == value && cur->getAttr(w.seg, gr_slatUserDefn, sub) == value, "user attribute: get after set");
  VH_END();
}

// ---- Slot::index / gr_slot_index: the stream index set by associateChars reads back unchanged for every 32-bit value (segments are not limited
// to 65536 slots)
VH_ENTRY vh_slot_index() {
  World w; vh_make_face(w); vh_make_segment(w);
  uint32_t v = nondet_u32();
  w.sl[0]->index(v);
  ASSERT(gr_slot_index(static_cast<const gr_slot *>(w.sl[0])) == v, "gr_slot_index returns the index the slot was given");
  VH_END();
}
