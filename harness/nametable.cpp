// C01: NameTable on arbitrary 'name' table bytes (ctor validation, getName in three encodings, getLanguageId)
#include "common.h"
#include "inc/Main.h"
#include "inc/NameTable.h"
using namespace graphite2;
// Stub (listed in the evidence): the locale->LCID trie is built from a static table and does not depend on font bytes;
// its constructor (200 allocations) is replaced by an empty trie.  getMsId then falls back to its default.
extern "C" void vh_stub_locale2lang(Locale2Lang *self) asm("_ZN9graphite211Locale2LangC2Ev");
void vh_stub_locale2lang(Locale2Lang *self) {
  for (unsigned i = 0; i < 26; ++i) for (unsigned j = 0; j < 26; ++j) self->mLangLookup[i][j] = 0;
  self->mSeedPosition = 128;
}
#ifndef LEN
#define LEN 19
#endif
VH_ENTRY vh_name() {
  uint8_t *t = vh_bytes(LEN);
#ifdef STROFF_MIN   /* quick tier: the string storage starts behind the records, as font compilers lay it out (bounds the name lengths, i.e. the
                       allocation sizes the solver has to split over); the thorough tier runs without this */
  if (LEN >= 6) ASSUME(((t[4] << 8) | t[5]) >= STROFF_MIN);
#endif
  NameTable *nt = new NameTable(t, LEN, 3, 1);
  ASSUME(nt != 0);
  free(t);                                   // the table keeps its own copy: the provider's buffer may go away
  uint16 lang = nondet_u16(); uint16 nameId = nondet_u16(); uint32 length = 0;
  unsigned e = nondet_u8() % 3;
  gr_encform enc = e == 0 ? gr_utf8 : e == 1 ? gr_utf16 : gr_utf32;
  void *name = nt->getName(lang, nameId, enc, length);
  if (name) {
    if (enc == gr_utf8) ASSERT(((uint8_t *)name)[length] == 0, "label is NUL terminated at its reported length (utf8)");
    if (enc == gr_utf16) ASSERT(((uint16_t *)name)[length] == 0, "label is NUL terminated at its reported length (utf16)");
    if (enc == gr_utf32) ASSERT(((uint32_t *)name)[length] == 0, "label is NUL terminated at its reported length (utf32)");
    free(name);
  } else ASSERT(length == 0, "no label: length 0");
#ifndef NOLANG
  char loc[3]; loc[0] = (char)nondet_u8(); loc[1] = (char)nondet_u8(); loc[2] = 0;
  ASSUME(loc[0] != 0 && loc[1] != 0);
  (void)nt->getLanguageId(loc);
#endif
  VH_END();
}
