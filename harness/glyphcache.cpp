// C16 (failed loads release everything) / C01: GlyphCache construction and destruction against a table provider that tracks every buffer.
// The glyph loader borrows head, hhea, hmtx, glyf, loca (+ maxp, Glat, Gloc); the scenario (query) says which of the later tables the font
// lacks, so that construction fails at a known point with some tables already borrowed.  Table contents are arbitrary.
#include "common.h"
#include "inc/Main.h"
#include "inc/Face.h"
#include "inc/GlyphCache.h"
#include "inc/TtfUtil.h"
using namespace graphite2;
#ifndef MISSING
#define MISSING 0x6d617870          /* 'maxp' */
#endif
enum { MAXOUT = 10 };
struct MultiProv { const void *out[MAXOUT]; unsigned n_out, handed, released; bool foreign; };
static MultiProv g_mp;
static size_t table_len(unsigned tag) {
  switch (tag) {
    case 0x68656164: return 54;   // head
    case 0x68686561: return 36;   // hhea
    case 0x6d617870: return 32;   // maxp
    case 0x476c6f63: return 12;   // Gloc
    case 0x476c6174: return 8;    // Glat
    default: return 8;            // hmtx, glyf, loca
  }
}
static const void *mp_get(const void *h, unsigned int tag, size_t *len) {
  MultiProv *p = (MultiProv *)h;
  if (tag == MISSING) { *len = 0; return 0; }
  uint8_t *b = vh_bytes(table_len(tag));
  if (p->n_out < MAXOUT) p->out[p->n_out++] = b; else p->foreign = true;
  ++p->handed; *len = table_len(tag);
  return b;
}
static void mp_release(const void *h, const void *buf) {
  MultiProv *p = (MultiProv *)h;
  bool found = false;
  for (unsigned i = 0; i < MAXOUT; ++i) if (i < p->n_out && !found && p->out[i] == buf) { p->out[i] = p->out[p->n_out - 1]; --p->n_out; found = true; }
  ASSERT(found, "release_table gets a pointer get_table returned and that has not been released yet");
  ++p->released;
  if (found) free((void *)buf);
}
VH_ENTRY vh_glyphcache_fail() {
  MultiProv *p = &g_mp; p->n_out = p->handed = p->released = 0; p->foreign = false;
  Face *f = vh_new<Face>(); memset((void *)f, 0, sizeof(Face));
  f->m_ops.size = sizeof(gr_face_ops); f->m_ops.get_table = mp_get; f->m_ops.release_table = mp_release; f->m_appFaceHandle = p;
  uint32 opts = nondet_u8() & 0x1f;
  GlyphCache *gc = new GlyphCache(*f, opts);
  ASSUME(gc != 0);
  ASSERT(gc->numGlyphs() == 0, "a font lacking that table has no usable glyph cache (Face::readGlyphs fails, gr_make_face returns NULL)");
  delete gc;                                   // what ~Face does on the failure path of gr_make_face
  ASSERT(p->n_out == 0 && p->handed == p->released && !p->foreign, "on a failed load every table obtained has been released");
  VH_END();
}
