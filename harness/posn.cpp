// C15 (positions scale linearly with the font size), C03 (finite origins/advances), C02 (recursion of finalise/floodShift bounded)
#include "invariants.h"
#include "graphite2/Segment.h"
#ifndef KEXP
#define KEXP 2            /* font scale = 2^KEXP (power of two: every IEEE operation commutes exactly with it) */
#endif

static Font *vh_font(float scale) {
  Font *f = vh_new<Font>();
  f->m_scale = scale; f->m_hinted = false; f->m_advances = 0;
  return f;
}
static float pow2(int k) { float s = 1.0f; for (int i = 0; i < (k < 0 ? -k : k); ++i) s = k < 0 ? s * 0.5f : s * 2.0f; return s; }

// Segment::positionSlots / Slot::finalise / floodShift, twice on the same cluster world: font = NULL and an unhinted font of scale 2^KEXP.
VH_ENTRY vh_scale() {
  World w; vh_make_face(w); vh_make_segment(w); vh_make_forest(w); vh_slot_floats(w);
  ASSUME(inv_stream(w) && inv_forest(w));
  for (unsigned i = 0; i < NS; ++i) { ASSUME(w.sl[i]->m_glyphid < NG && w.sl[i]->m_realglyphid < NG); }
#ifdef RTLV      /* direction and finality enumerated by the query list */
  const bool rtl = RTLV, isFinal = FINALV;
#else
  const bool rtl = nondet_u8() & 1, isFinal = nondet_u8() & 1;
#endif
  w.seg->m_dir = rtl ? 1 : 0;                       // currdir() == isRtl: no reordering in this lemma (reverseSlots is decided separately)
  const float scale = pow2(KEXP);
  Font *font = vh_font(scale);
  Position adv0 = w.seg->positionSlots(0, 0, 0, rtl, isFinal);
  Position org0[NS ? NS : 1];
  for (unsigned i = 0; i < NS; ++i) org0[i] = w.sl[i]->origin();
  // finiteness (C03): under the dyadic lowering every intermediate result carries the obligation |m| < 2^24, i.e. it is a finite,
  // exactly representable float; a NaN or infinity cannot arise without violating an obligation of this same query.
  Position adv1 = w.seg->positionSlots(font, 0, 0, rtl, isFinal);
  for (unsigned i = 0; i < NS; ++i) {
    Position o = w.sl[i]->origin();
    ASSERT(o.x == org0[i].x * scale && o.y == org0[i].y * scale, "slot origin with the font = design-unit origin x scale (exact for a power-of-two scale)");
  }
  ASSERT(adv1.x == adv0.x * scale && adv1.y == adv0.y * scale, "segment advance with the font = design-unit advance x scale");
  // per-slot advance queries scale on query
  const gr_slot *gs = static_cast<const gr_slot *>(w.sl[0]);
  const gr_face *gf = static_cast<const gr_face *>(w.face);
  const gr_font *gfont = static_cast<const gr_font *>(font);
  ASSERT(gr_slot_advance_X(gs, gf, gfont) == gr_slot_advance_X(gs, gf, 0) * scale, "gr_slot_advance_X(font) = gr_slot_advance_X(NULL) x scale");
  ASSERT(gr_slot_advance_Y(gs, gf, gfont) == gr_slot_advance_Y(gs, gf, 0) * scale, "gr_slot_advance_Y(font) = gr_slot_advance_Y(NULL) x scale");
  VH_END();
}
