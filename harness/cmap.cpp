// C01 (cmap parsers are total and memory-safe on arbitrary bytes) and C13 (lookups follow the OpenType rules)
#include "common.h"
#include "inc/Main.h"
#include "inc/TtfUtil.h"
#include "inc/TtfTypes.h"
#include "inc/Endian.h"
using namespace graphite2;
#ifndef LEN
#define LEN 44
#endif

static inline uint16_t rd16(const uint8_t *p) { return (uint16_t)((p[0] << 8) | p[1]); }
static inline uint32_t rd32(const uint8_t *p) { return ((uint32_t)p[0] << 24) | ((uint32_t)p[1] << 16) | ((uint32_t)p[2] << 8) | p[3]; }

// ---------------------------------------------------------------- C01: format 4, arbitrary table bytes
// Everything the face does with a BMP subtable: find it, check it, look up any code point, and one iteration of the
// cache-filling loop of CachedCmap from an arbitrary loop state (progress lemma: the previous code point strictly increases).
VH_ENTRY vh_cmap4_safe() {
  uint8_t *t = vh_bytes(LEN);
  if (!TtfUtil::CheckTable(TtfUtil::Tag::cmap, t, LEN)) { VH_END(); return; }
  int plat = nondet_u8() & 3, enc = nondet_u8() & 15;
  const void *st = TtfUtil::FindCmapSubtable(t, plat, enc, LEN);
  if (st) ASSERT((const uint8_t *)st >= t && (const uint8_t *)st + 2 <= t + LEN, "subtable pointer inside the table");
  if (!TtfUtil::CheckCmapSubtable4(st, t + LEN)) { VH_END(); return; }
  uint32_t usv = nondet_u32();
  (void)TtfUtil::CmapSubtable4Lookup(st, usv, 0);                    // any code point, no range key
  const unsigned nRange = rd16((const uint8_t *)st + 6) >> 1;
  // cache-fill loop state: (codePoint, prevCodePoint, rangeKey) with the loop invariant of cache_subtable
  uint32_t cp = nondet_u32(), prev = nondet_u32(); int key = (int)nondet_u16();
  ASSUME(key >= 0 && (unsigned)key <= nRange && (cp >= 0xFFFF || (unsigned)key < nRange));
  ASSUME(prev <= 0xFFFF);
  if (cp < 0xFFFF) {
    (void)TtfUtil::CmapSubtable4Lookup(st, cp, key);
    if (cp <= prev) cp = prev + 1;
    uint32_t newprev = cp;
    cp = TtfUtil::CmapSubtable4NextCodepoint(st, cp, &key);
    ASSERT(newprev > prev || prev == 0, "cache fill makes progress: the previous code point strictly increases, so the loop ends within 0x10000 iterations");
    ASSERT(key >= 0 && (unsigned)key <= nRange && (cp >= 0xFFFF || (unsigned)key < nRange), "loop invariant re-established: range key indexes a segment whenever another lookup follows");
  }
  // first call of the loop
  int key0 = (int)nondet_u16();
  uint32_t first = TtfUtil::CmapSubtable4NextCodepoint(st, 0, &key0);
  ASSERT(key0 == 0 && first <= 0xFFFF, "first code point comes with range key 0");
  free(t);
  VH_END();
}

// ---------------------------------------------------------------- C01: format 12, arbitrary table bytes
VH_ENTRY vh_cmap12_safe() {
  uint8_t *t = vh_bytes(LEN);
  if (!TtfUtil::CheckTable(TtfUtil::Tag::cmap, t, LEN)) { VH_END(); return; }
  int plat = nondet_u8() & 3, enc = nondet_u8() & 15;
  const void *st = TtfUtil::FindCmapSubtable(t, plat, enc, LEN);
  if (!TtfUtil::CheckCmapSubtable12(st, t + LEN)) { VH_END(); return; }
  uint32_t usv = nondet_u32();
  (void)TtfUtil::CmapSubtable12Lookup(st, usv, 0);
  const uint32_t nGroups = rd32((const uint8_t *)st + 12);
  uint32_t cp = nondet_u32(), prev = nondet_u32(); int key = (int)nondet_u32();
  ASSUME(key >= 0 && (uint32_t)key <= nGroups && (cp >= 0x10FFFF || (uint32_t)key < nGroups) && prev <= 0x10FFFF);   // loop invariant of cache_subtable
  if (cp < 0x10FFFF) {
    (void)TtfUtil::CmapSubtable12Lookup(st, cp, key);
    if (cp <= prev) cp = prev + 1;
    uint32_t newprev = cp;
    cp = TtfUtil::CmapSubtable12NextCodepoint(st, cp, &key);
    ASSERT(newprev > prev || prev == 0, "cache fill makes progress");
    ASSERT(key >= 0 && (uint32_t)key <= nGroups && (cp >= 0x10FFFF || (uint32_t)key < nGroups), "loop invariant re-established: range key indexes a group whenever another lookup follows");
  }
  free(t);
  VH_END();
}

// ---------------------------------------------------------------- C13: format 4 lookup = OpenType rules, well-formed subtable
#ifndef NSEG
#define NSEG 2
#endif
#ifndef NGID
#define NGID 2       /* glyphIdArray entries */
#endif
// reference (OpenType spec, 'cmap' format 4): first segment with endCode >= c; if startCode <= c:
// idRangeOffset == 0 -> (c + idDelta) mod 65536, else glyphIdArray entry (address arithmetic from the idRangeOffset word), 0 stays 0
static uint16_t ref_lookup4(const uint8_t *st, uint32_t c) {
  if (c > 0xFFFF) return 0;
  const unsigned n = rd16(st + 6) >> 1, len = rd16(st + 2);
  const uint8_t *endc = st + 14, *startc = endc + 2 * n + 2, *delta = startc + 2 * n, *ro = delta + 2 * n;
  for (unsigned i = 0; i < n && i < NSEG; ++i) {
    if (rd16(endc + 2 * i) >= c) {
      if (rd16(startc + 2 * i) > c) return 0;
      uint16_t d = rd16(delta + 2 * i), r = rd16(ro + 2 * i);
      if (r == 0) return (uint16_t)(c + d);
      size_t off = (size_t)(ro + 2 * i - st) + r + 2 * (c - rd16(startc + 2 * i));
      if (off + 1 >= len) return 0;                 // outside the subtable: unmapped
      uint16_t g = rd16(st + off);
      return g ? (uint16_t)(g + d) : 0;
    }
  }
  return 0;
}
VH_ENTRY vh_cmap4_ref() {
  const unsigned SUB = 16 + 8 * NSEG + 2 * NGID;
  uint8_t *st = vh_bytes(SUB);
  ASSUME(rd16(st) == 4 && rd16(st + 2) == SUB && rd16(st + 6) == 2 * NSEG);
  ASSUME(TtfUtil::CheckCmapSubtable4(st, st + SUB));
  // well-formed: segments sorted by endCode, non-overlapping, start <= end, last endCode 0xFFFF (CheckCmapSubtable4), idRangeOffset even
  const uint8_t *endc = st + 14, *startc = endc + 2 * NSEG + 2, *ro = startc + 4 * NSEG;
  for (unsigned i = 0; i < NSEG; ++i) {
    ASSUME(rd16(startc + 2 * i) <= rd16(endc + 2 * i));
    if (i) ASSUME(rd16(endc + 2 * (i - 1)) < rd16(startc + 2 * i));
    ASSUME((rd16(ro + 2 * i) & 1) == 0);
  }
  uint32_t usv = nondet_u32();
  ASSUME(usv <= 0xFFFF);
  uint16_t g = TtfUtil::CmapSubtable4Lookup(st, usv, 0);
  ASSERT(g == ref_lookup4(st, usv), "format 4 lookup equals the OpenType reference (idDelta mod 65536, idRangeOffset addressing, 0 if unmapped)");
  free(st);
  VH_END();
}

// ---------------------------------------------------------------- C13: format 12 lookup
#ifndef NGRP
#define NGRP 2
#endif
VH_ENTRY vh_cmap12_ref() {
  const unsigned SUB = 16 + 12 * NGRP;
  uint8_t *st = vh_bytes(SUB);
  ASSUME(rd16(st) == 12 && rd32(st + 4) == SUB && rd32(st + 12) == NGRP);
  ASSUME(TtfUtil::CheckCmapSubtable12(st, st + SUB));
  for (unsigned i = 0; i < NGRP; ++i) {
    ASSUME(rd32(st + 16 + 12 * i) <= rd32(st + 20 + 12 * i));
    if (i) ASSUME(rd32(st + 20 + 12 * (i - 1)) < rd32(st + 16 + 12 * i));     // sorted, disjoint
  }
  uint32_t usv = nondet_u32();
  uint16_t g = TtfUtil::CmapSubtable12Lookup(st, usv, 0);
  uint16_t ref = 0;
  for (unsigned i = 0; i < NGRP; ++i) {
    uint32_t s = rd32(st + 16 + 12 * i), e = rd32(st + 20 + 12 * i), gid = rd32(st + 24 + 12 * i);
    if (usv >= s && usv <= e) { ref = (uint16_t)(gid + (usv - s)); break; }
  }
  ASSERT(g == ref, "format 12 lookup equals the OpenType reference");
  free(st);
  VH_END();
}

// ---- C10 / C13: one step of the cache-fill enumeration (CachedCmap::cache_subtable), format 12.  From any code point and any range key
// that names a group at or before the one containing it (what the previous step returned, or 0), CmapSubtable12NextCodepoint returns the
// next mapped code point and a key with which the keyed lookup (the one the cache stores) equals the full lookup (the one DirectCmap uses).
// Induction over the steps gives: every mapped code point is visited once and cached with the direct path's glyph.
VH_ENTRY vh_cmap12_step() {
  const unsigned SUB = 16 + 12 * NGRP;
  uint8_t *st = vh_bytes(SUB);
  ASSUME(rd16(st) == 12 && rd32(st + 4) == SUB && rd32(st + 12) == NGRP);
  for (unsigned i = 0; i < NGRP; ++i) {
    ASSUME(rd32(st + 16 + 12 * i) <= rd32(st + 20 + 12 * i) && rd32(st + 20 + 12 * i) <= 0x10FFFF);
    if (i) ASSUME(rd32(st + 20 + 12 * (i - 1)) < rd32(st + 16 + 12 * i));     // sorted, disjoint
  }
  uint32_t prev = nondet_u32(); ASSUME(prev < 0x10FFFF);
  int key = (int)(nondet_u8() % (NGRP + 1));
  // loop state of cache_subtable: the key names the group holding prev, or an earlier one (0 at the start)
  unsigned holder = NGRP;       // first group whose end is >= prev
  for (unsigned i = 0; i < NGRP; ++i) if (holder == NGRP && rd32(st + 20 + 12 * i) >= prev) holder = i;
  ASSUME(key <= (int)holder && key < (int)NGRP);
  unsigned int next = TtfUtil::CmapSubtable12NextCodepoint(st, prev, &key);
  // reference: the smallest mapped code point above prev (prev == 0 asks for the first mapped code point), 0x10FFFF when there is none
  uint32_t ref = 0x10FFFF; bool have = false;
  for (unsigned i = 0; i < NGRP; ++i) {
    uint32_t s = rd32(st + 16 + 12 * i), e = rd32(st + 20 + 12 * i);
    if (have) continue;
    if (prev == 0) { ref = s; have = true; }
    else if (e > prev) { ref = s > prev ? s : prev + 1; have = true; }
  }
  ASSERT(next == ref, "enumeration: the next mapped code point (0x10FFFF at the end)");
  if (next < 0x10FFFF) {
    ASSERT(key >= 0 && key < (int)NGRP, "the range key names a group");
    ASSERT(TtfUtil::CmapSubtable12Lookup(st, next, key) == TtfUtil::CmapSubtable12Lookup(st, next, 0), "keyed lookup (what the cache stores) == full lookup (what the direct path returns)");
  }
  free(st);
  VH_END();
}

// ---- the same step lemma for format 4 (BMP).  Range key 0 means "search"; a non-zero key is used by the lookup without any search, so it
// must name exactly the segment of the code point returned.
VH_ENTRY vh_cmap4_step() {
  const unsigned SUB = 16 + 8 * NSEG + 2 * NGID;
  uint8_t *st = vh_bytes(SUB);
  ASSUME(rd16(st) == 4 && rd16(st + 2) == SUB && rd16(st + 6) == 2 * NSEG);
  ASSUME(TtfUtil::CheckCmapSubtable4(st, st + SUB));
  const uint8_t *endc = st + 14, *startc = endc + 2 * NSEG + 2, *ro = startc + 4 * NSEG;
  for (unsigned i = 0; i < NSEG; ++i) {
    ASSUME(rd16(startc + 2 * i) <= rd16(endc + 2 * i));
    if (i) ASSUME(rd16(endc + 2 * (i - 1)) < rd16(startc + 2 * i));
    ASSUME((rd16(ro + 2 * i) & 1) == 0);
  }
  uint32_t prev = nondet_u16(); ASSUME(prev > 0 && prev < 0xFFFF);      // 0 = "first code point" and the U+0000/U+0001 case are handled by cache_subtable (cmap_paths queries)
  int key = (int)(nondet_u8() % NSEG);
  unsigned holder = NSEG - 1;
  for (unsigned i = NSEG; i-- > 0; ) if (rd16(endc + 2 * i) >= prev) holder = i;
  ASSUME(key <= (int)holder);
  unsigned int next = TtfUtil::CmapSubtable4NextCodepoint(st, prev, &key);
  uint32_t ref = 0xFFFF; bool have = false;
  for (unsigned i = 0; i < NSEG; ++i) {
    uint32_t s = rd16(startc + 2 * i), e = rd16(endc + 2 * i);
    if (!have && e > prev) { ref = s > prev ? s : prev + 1; have = true; }
  }
  ASSERT(next == ref, "enumeration: the next code point covered by a segment (0xFFFF at the end)");
  ASSERT(key >= 0 && key < (int)NSEG, "the range key names a segment");
  if (next < 0xFFFF)
    ASSERT(TtfUtil::CmapSubtable4Lookup(st, next, key) == TtfUtil::CmapSubtable4Lookup(st, next, 0), "keyed lookup (what the cache stores) == searched lookup (what the direct path returns)");
  free(st);
  VH_END();
}

// ---- C13 (which subtable answers): TtfUtil::FindCmapSubtable on arbitrary cmap bytes with NREC encoding records.  Soundness: a subtable that is
// returned is the one of the FIRST record with the requested platform/encoding and starts inside the table.  Completeness: if that record's
// subtable is format 4 or 12 and lies inside the table (offset + announced length <= table length; for a record that is not the last one the
// announced length also has to stay below the next record's offset, as the function requires) it IS returned - in particular a subtable that
// ends exactly at the end of the table.
#ifndef NREC
#define NREC 1
#endif
#ifndef TLEN
#define TLEN 28
#endif
VH_ENTRY vh_findsubtable() {
  uint8_t *t = vh_bytes(TLEN);
  t[2] = 0; t[3] = NREC;
  int plat = nondet_u8() & 3; int enc = nondet_bool() ? -1 : (int)(nondet_u8() & 15);
  const void *r = TtfUtil::FindCmapSubtable(t, plat, enc, TLEN);
  int first = -1;
  for (int i = NREC - 1; i >= 0; --i) { const uint8_t *rec = t + 4 + 8 * i; if ((int)rd16(rec) == plat && (enc == -1 || (int)rd16(rec + 2) == enc)) first = i; }
  if (first < 0) { ASSERT(r == 0, "no record with that platform/encoding: nothing found"); }
  else {
    const uint32_t off = rd32(t + 4 + 8 * first + 4);
    if (r) ASSERT(r == t + off && off <= TLEN - 2, "found: the subtable of the first matching record, starting inside the table");
    if (off <= TLEN - 8) {
      const unsigned fmt = rd16(t + off);
      const bool last = first + 1 == NREC;
      const uint32_t nextoff = last ? 0 : rd32(t + 4 + 8 * (first + 1) + 4);
      if (fmt == 4) { const uint32_t sl = rd16(t + off + 2); if (off + sl <= TLEN && (last || sl <= nextoff)) ASSERT(r == t + off, "format 4 subtable inside the table (also flush with its end) is found"); }
      else if (fmt == 12) { const uint32_t sl = rd32(t + off + 2); if (sl <= TLEN && off + sl <= TLEN && (last || sl <= nextoff)) ASSERT(r == t + off, "format 12 subtable inside the table is found"); }
      else ASSERT(r == t + off, "other formats are returned as they are (their checks follow later)");
    }
  }
  free(t);
  VH_END();
}
