// C01 (Silf class map on arbitrary bytes), C02 (class lookups with arbitrary operands stay inside the loaded class data), C13 (pseudo-glyph
// fallback).  The class count (first two bytes) is pinned by the query because it sizes an allocation; every other byte is arbitrary.
#ifndef LEN
#define LEN 12
#endif
#ifndef NCLS
#define NCLS 1
#endif
#ifndef V4
#define V4 0              /* 0: Silf version < 4 (16-bit class offsets); 1: version >= 4 (32-bit offsets) */
#endif
#include "loader.h"
#include "inc/Silf.h"
#include "inc/Error.h"
static inline unsigned rd16(const uint8_t *p) { return (p[0] << 8) | p[1]; }

VH_ENTRY vh_classmap() {
  Silf *s = vh_new<Silf>(); memset((void *)s, 0, sizeof(Silf));
  uint8_t *b = vh_bytes(LEN);
  if (LEN >= 2) { b[0] = (uint8_t)(NCLS >> 8); b[1] = (uint8_t)NCLS; }
  uint32 version = nondet_u32();
  ASSUME(V4 ? version >= 0x00040000 : version < 0x00040000);
  Error e;
  size_t r = s->readClassMap(b, LEN, version, e);
  if (r != 0xFFFFFFFFu) {
    const uint32 max_off = (uint32)r;
    ASSERT(s->m_nClass == NCLS && s->m_nLinear <= s->m_nClass && s->m_classOffsets != 0, "accepted: counts as announced");
    ASSERT(max_off <= LEN / 2, "accepted: the class data lies inside the class map");
    for (unsigned i = 0; i <= NCLS; ++i) ASSERT(s->m_classOffsets[i] <= max_off, "every class offset (incl. the end sentinel) inside the class data");
    for (unsigned i = 0; i < NCLS; ++i) {
      if (i < s->m_nLinear) ASSERT(s->m_classOffsets[i] <= s->m_classOffsets[i + 1], "linear classes: offsets ascending");
      else {
        const uint32 o = s->m_classOffsets[i];
        ASSERT(o + 4 <= max_off && s->m_classData[o] != 0 && s->m_classData[o] * 2u + o + 4 <= max_off, "lookup classes: header and all numIDs pairs inside the class data");
      }
    }
    // arbitrary class id / glyph id / index operands, as bytecode supplies them: the lookups stay inside what was loaded (cbmc bounds checks)
    // (class ids below the class count: the bytecode loader rejects any other operand - decoder::valid_upto(_max.classes, ..))
    uint16 cid = nondet_u16(), gid = nondet_u16(); unsigned idx = nondet_u32();
    if (cid < NCLS) {
      (void)s->findClassIndex(cid, gid);
      (void)s->getClassGlyph(cid, idx);
    }
#ifdef REACH_ACCEPT
    VH_END();
#endif
  }
#ifndef REACH_ACCEPT
  VH_END();
#endif
}

#ifndef NPS
#define NPS 2
#endif
// ---- Silf::findPseudo == "the glyph of the first entry for that code point, else 0", for every pseudo map content
VH_ENTRY vh_pseudo() {
  Silf *s = vh_new<Silf>(); memset((void *)s, 0, sizeof(Silf));
  Pseudo *ps = vh_new<Pseudo>(NPS ? NPS : 1);
  for (unsigned i = 0; i < NPS; ++i) { ps[i].uid = nondet_u32(); ps[i].gid = nondet_u32(); }
  s->m_pseudos = ps; s->m_numPseudo = NPS;
  uint32 uid = nondet_u32();
  uint16 g = s->findPseudo(uid);
  uint16 ref = 0; bool found = false;
  for (unsigned i = 0; i < NPS; ++i) if (!found && ps[i].uid == uid) { ref = (uint16)ps[i].gid; found = true; }
  ASSERT(g == ref, "pseudo-glyph fallback: glyph of the first map entry with that code point, 0 if there is none");
  VH_END();
}
