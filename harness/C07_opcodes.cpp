// C07(a): each arithmetic/logic/compare/cond/trunc/bit opcode body follows the opcode spec on 32-bit two's complement,
// for ALL operand values, and moves sp/dp as the spec says; also C02-1 for these bodies (every stack access inside _stack).
#include "common.h"
#include "vmregs.h"
#ifndef OPC
#define OPC 0x06
#endif
#ifndef IMPL
#define IMPL 0
#endif
#ifndef DEPTHSEL
#define DEPTHSEL 1
#endif

enum { STK = Machine::STACK_MAX + 2 * Machine::STACK_GUARD };

// reference: arity (items popped), params consumed, and result on 32-bit two's complement (doc/OpCodes.adoc)
static inline int ref_arity(int op) {
  switch (op) {
    case 0x00: case 0x01: case 0x02: case 0x03: case 0x04: case 0x05: case 0x31: case 0x32: return 0;
    case 0x0C: case 0x0D: case 0x0E: case 0x12: case 0x40: case 0x41: case 0x30: return 1;
    case 0x0F: return 3;
    default: return 2;
  }
}
static inline int ref_params(int op) { return op == 0x01 || op == 0x02 ? 1 : op == 0x03 || op == 0x04 ? 2 : op == 0x05 ? 4 : op == 0x41 ? 4 : 0; }
static inline bool ref_pushes(int op) { return op != 0x00; }
// a1 = top-most item, a2 = second, a3 = third; p = parameter bytes
static inline bool ref_eval(int op, int32_t a1, int32_t a2, int32_t a3, const uint8_t *p, int32_t &res) {
  uint32_t u1 = a1, u2 = a2;
  switch (op) {
    case 0x01: res = (int8_t)p[0]; return true;
    case 0x02: res = p[0]; return true;
    case 0x03: res = (int16_t)((p[0] << 8) | p[1]); return true;
    case 0x04: res = (uint16_t)((p[0] << 8) | p[1]); return true;
    case 0x05: res = (int32_t)(((uint32_t)p[0] << 24) | ((uint32_t)p[1] << 16) | ((uint32_t)p[2] << 8) | p[3]); return true;
    case 0x06: res = (int32_t)(u2 + u1); return true;
    case 0x07: res = (int32_t)(u2 - u1); return true;
    case 0x08: res = (int32_t)(u2 * u1); return true;
    case 0x09: if (a1 == 0 || (a2 == INT32_MIN && a1 == -1)) return false; res = a2 / a1; return true;   // fails safely
    case 0x0A: res = a1 < a2 ? a1 : a2; return true;
    case 0x0B: res = a1 > a2 ? a1 : a2; return true;
    case 0x0C: res = (int32_t)(0u - u1); return true;
    case 0x0D: res = (int32_t)(u1 & 0xFF); return true;
    case 0x0E: res = (int32_t)(u1 & 0xFFFF); return true;
    case 0x0F: res = a3 ? a2 : a1; return true;            // pop f(a1), t(a2), c(a3): c ? t : f
    case 0x10: res = (a2 != 0 && a1 != 0) ? 1 : 0; return true;
    case 0x11: res = (a2 != 0 || a1 != 0) ? 1 : 0; return true;
    case 0x12: res = a1 == 0 ? 1 : 0; return true;
    case 0x13: res = a2 == a1; return true;
    case 0x14: res = a2 != a1; return true;
    case 0x15: res = a2 < a1; return true;
    case 0x16: res = a2 > a1; return true;
    case 0x17: res = a2 <= a1; return true;
    case 0x18: res = a2 >= a1; return true;
    case 0x30: res = a1; return true;
    case 0x31: res = 0; return true;
    case 0x32: res = 1; return true;
    case 0x3E: res = (int32_t)(u2 | u1); return true;      // engine numbering (doc/OpCodes.adoc lists 3E/3F the other way round; see DESIGN 7)
    case 0x3F: res = (int32_t)(u2 & u1); return true;
    case 0x40: res = (int32_t)~u1; return true;
    case 0x41: { uint32_t m = (p[0] << 8) | p[1], v = (p[2] << 8) | p[3]; res = (int32_t)((u1 & ~m) | v); return true; }
    default: res = 0; return true;
  }
}

VH_ENTRY vh_opcode() {
  const opcode_t *tab = Machine::getOpcodeTable();
  ip_t fn = (ip_t)tab[OPC].impl[IMPL];
  ASSERT(fn != 0, "opcode is implemented for this code type");
  ASSERT(tab[OPC].param_sz == ref_params(OPC), "param_sz matches the spec");
  // world: a segment (only m_last is read, by DIE) and a slot map
  Segment *seg = (Segment *)malloc(sizeof(Segment));     // (no calloc/memset: their array-set quantifier keeps the VC out of QF logics)
  Slot *lastslot = (Slot *)malloc(sizeof(Slot));
  ASSUME(seg && lastslot);
  seg->m_last = lastslot;
  SlotMap smap(*seg, 0, 0);
  Machine::stack_t stk[STK];            // exactly the size of Machine::_stack; local so that cbmc tracks each cell separately
  Machine::stack_t *const sb = stk + Machine::STACK_GUARD;
  const int arity = ref_arity(OPC);
  // entry invariant of ENDOP + loader's depth analysis: arity <= depth < STACK_MAX.  Depth is enumerated concretely
  // (DEPTHSEL 0: just the operands, 1: one item below them, 2: full stack) - a symbolic index into the 1028-cell stack costs 50-100 s per query.
#if DEPTHSEL == 0
  const uint16_t depth = arity;
#elif DEPTHSEL == 1
  const uint16_t depth = arity + 1;
#else
  const uint16_t depth = Machine::STACK_MAX - 1;
#endif
  Machine::stack_t *sp = sb + depth;
  int32_t a1 = nondet_i32(), a2 = nondet_i32(), a3 = nondet_i32(), below = nondet_i32();
  if (arity >= 1) sp[0] = a1;
  if (arity >= 2) sp[-1] = a2;
  if (arity >= 3) sp[-2] = a3;
  if (depth > arity) sp[-arity] = below;
  uint8_t *params = vh_bytes(4);
  const byte *dp = params;
  const instr *ip = 0;
  Machine::status_t status = Machine::finished;
  slotref mapv[2] = {0, 0};
  regbank reg = {0, mapv, smap, mapv, ip, 0, 0, status};
  bool cont = fn(dp, sp, sb, reg);
  int32_t res = 0;
  bool ok = ref_eval(OPC, a1, a2, a3, params, res);
  bool isret = OPC >= 0x30 && OPC <= 0x32;
  if (ok) {
    int newdepth = depth - arity + (ref_pushes(OPC) ? 1 : 0);
    ASSERT(sp == sb + newdepth, "stack pointer moves by pushes minus pops");
#if OPC == 0x09 && defined(DIVMODE)
    // DIV quotient: a 32/32 divider against a second divider (or a 64-bit multiplier) gives no verdict on any back end within
    // 240 s (DESIGN 3.7); the quotient clause is therefore decided on operand sub-ranges, the fail-safe clause on ALL operands.
#if DIVMODE == 1      /* any 32-bit dividend, divisor in [-128,127] */
    if (a1 >= -128 && a1 <= 127) ASSERT(*sp == res, "quotient equals truncating signed division (8-bit divisor)");
#elif DIVMODE == 2    /* dividend and divisor in the signed 16-bit range */
    if (a1 >= -32768 && a1 <= 32767 && a2 >= -32768 && a2 <= 32767) ASSERT(*sp == res, "quotient equals truncating signed division (16-bit operands)");
#elif DIVMODE == 3    /* divisor with magnitude >= 2^24: quotient magnitude < 256 */
    if (a1 >= (1 << 24) || a1 <= -(1 << 24)) ASSERT(*sp == res, "quotient equals truncating signed division (large divisor)");
#endif
#else
    if (ref_pushes(OPC)) ASSERT(*sp == res, "result equals the spec on 32-bit two's complement");
#endif
    if (depth > arity) ASSERT(sb[depth - arity] == below, "item below the operands is untouched");
    ASSERT(dp == params + ref_params(OPC), "consumes exactly param_sz parameter bytes");
    ASSERT(status == Machine::finished && reg.is == 0, "status and slot cursor untouched");
    if (isret) ASSERT(!cont, "return opcodes stop the machine");
    else ASSERT(cont == (newdepth < (int)Machine::STACK_MAX), "continues exactly while the stack pointer stays in range");
  } else {
    ASSERT(!cont && status == Machine::died_early && reg.is == lastslot, "division by zero / INT_MIN/-1 fails safely (DIE)");
  }
  free(params); free(seg); free(lastslot);
  VH_END();
}

// (c) opcode_table: index == on-disk opcode number, param_sz as documented, constraint/action availability
struct RefOp { uint8_t psz; bool act, con; };
static const RefOp REFTAB[] = {
  {0,1,1},{1,1,1},{1,1,1},{2,1,1},{2,1,1},{4,1,1},{0,1,1},{0,1,1},{0,1,1},{0,1,1},{0,1,1},{0,1,1},{0,1,1},{0,1,1},{0,1,1},{0,1,1},
  {0,1,1},{0,1,1},{0,1,1},{0,1,1},{0,1,1},{0,1,1},{0,1,1},{0,1,1},{0,1,1},
  {0,1,0},{1,0,0},{0,1,0},{1,1,0},{3,1,0},{1,1,0},{0,1,0},{0,1,0},{0xff,1,0},{2,0,1},
  {1,1,0},{1,1,0},{1,1,0},{1,1,0},{2,1,0},{2,1,1},{2,1,1},{3,1,1},{2,1,1},{2,1,1},{3,1,1},{3,1,1},{3,0,0},
  {0,1,1},{0,1,1},{0,1,1},{2,1,0},{2,1,0},{2,1,0},{1,1,1},{0,1,1},{5,1,0},{0,0,0},{0,0,0},{2,1,0},{3,1,1},{3,1,1},
  {0,1,1},{0,1,1},{0,1,1},{4,1,1},{2,1,0},
};
VH_ENTRY vh_optable() {
  const opcode_t *tab = Machine::getOpcodeTable();
  uint8_t op = nondet_u8();
  ASSUME(op < sizeof(REFTAB) / sizeof(REFTAB[0]));
  ASSERT(sizeof(REFTAB) / sizeof(REFTAB[0]) == MAX_OPCODE, "table covers every on-disk opcode");
  ASSERT(tab[op].param_sz == REFTAB[op].psz, "param_sz as documented");
  ASSERT((tab[op].impl[0] != 0) == REFTAB[op].act, "action implementation present exactly where documented");
  ASSERT((tab[op].impl[1] != 0) == REFTAB[op].con, "constraint implementation present exactly where documented");
  if (op != 0x19 && op != 0x1B && tab[op].impl[0] && tab[op].impl[1]) ASSERT(tab[op].impl[0] == tab[op].impl[1], "one body serves both code types");
  VH_END();
}
