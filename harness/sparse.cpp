// C02 / C01: glyph attribute lookup (sparse::operator[]) with ANY 16-bit key on a sparse array built by the real constructor from arbitrary
// ascending (key, value) runs, as GlyphCache::Loader::read_glyph builds it from Glat: the value stored for that key, 0 for every other key,
// and no access outside the array's own allocation (keys just past the last chunk included).
#include <utility>
#include <iterator>
#include "common.h"
#include "inc/Main.h"
#include "inc/Sparse.h"
using namespace graphite2;
#ifndef NKV
#define NKV 2
#endif
#ifndef KEYMAX
#define KEYMAX 96          /* keys below 2 chunks of 48 (sizes the allocation) */
#endif
typedef std::pair<sparse::key_type, sparse::mapped_type> KV;
VH_ENTRY vh_sparse() {
  KV *kv = vh_new<KV>(NKV ? NKV : 1);
  for (unsigned i = 0; i < NKV; ++i) { kv[i].first = nondet_u16(); kv[i].second = nondet_u16(); ASSUME(kv[i].first < KEYMAX); if (i) ASSUME(kv[i - 1].first < kv[i].first); }
  sparse *s = vh_new<sparse>();
  ::new (s) sparse(kv, kv + NKV);
  ASSUME(bool(*s));
  uint16_t k = nondet_u16();
  uint16_t got = (*s)[k];
  uint16_t ref = 0;
  for (unsigned i = 0; i < NKV; ++i) if (kv[i].first == k) ref = kv[i].second;
  ASSERT(got == ref, "lookup: the value stored for that attribute number, 0 for every other number");
  VH_END();
}
