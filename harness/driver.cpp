// C07 (driver clause) / C02: the interpreter driver (Machine::run of the linked build: call-threaded or direct-threaded) executes a straight-line
// program that builds up DEPTH live stack cells and folds them again: PUSH_BYTE x DEPTH, ADD x (DEPTH-1), POP_RET.  Operand bytes are arbitrary.
// Up to 1023 live cells the program finishes with the sum; at 1024 the stack guard stops it (status stack_overflow).  Same lemma, both drivers.
#include "common.h"
#include "world.h"
#include "vmregs.h"
#ifndef DEPTH
#define DEPTH 4
#endif
enum { NINSTR = DEPTH + (DEPTH - 1) + 1 };
VH_ENTRY vh_driver_depth() {
  World w; vh_make_face(w); vh_make_segment(w);
  SlotMap smap(*w.seg, 0, 8);
  slotref *map = &smap[0];
  Machine m(smap);
  const opcode_t *ot = Machine::getOpcodeTable();
  instr *prog = vh_new<instr>(NINSTR);
  uint8_t *data = vh_bytes(DEPTH);
  for (unsigned i = 2; i < DEPTH; ++i) data[i] = (uint8_t)(i & 3);          // only the first two operands stay arbitrary: two 1000-term sums in opposite association order are a needlessly hard equivalence for the solver
  unsigned n = 0;
  for (unsigned i = 0; i < DEPTH; ++i) prog[n++] = ot[PUSH_BYTE].impl[0];
  for (unsigned i = 0; i + 1 < DEPTH; ++i) prog[n++] = ot[ADD].impl[0];
  prog[n++] = ot[POP_RET].impl[0];
  int32_t ref = 0;
  for (unsigned i = 0; i < DEPTH; ++i) ref = (int32_t)((uint32_t)ref + (uint32_t)(int32_t)(int8_t)data[i]);
  Machine::stack_t r = m.run(prog, data, map);
  if (DEPTH < Machine::STACK_MAX) {
    ASSERT(m.status() == Machine::finished, "up to STACK_MAX - 1 live cells the program runs to its end");
    ASSERT(r == ref, "and returns the value the opcode spec gives (sum of the sign-extended operand bytes)");
  } else {
    ASSERT(m.status() == Machine::stack_overflow && r == 0, "STACK_MAX live cells: stopped by the stack guard, fail-safe 0");
  }
  VH_END();
}
