// C01: the TrueType helpers the glyph loader (GlyphCache::Loader) calls with table sizes straight from the table provider: every table is an
// exact-size heap object with arbitrary contents, glyph ids and offsets are arbitrary.
#include "common.h"
#include "inc/Main.h"
#include "inc/TtfUtil.h"
using namespace graphite2;
#ifndef LEN
#define LEN 8
#endif
// ---- LocaLookup: loca of LEN bytes, any head table (54 bytes), any glyph id
VH_ENTRY vh_loca() {
  uint8_t *loca = vh_bytes(LEN), *head = vh_bytes(54);
  uint16 gid = nondet_u16();
  size_t r = TtfUtil::LocaLookup(gid, loca, LEN, head);
  const unsigned fmt = (head[50] << 8) | head[51];
  if (fmt == 0 && (size_t)gid + 1 < LEN / 2 && r != (size_t)-1) ASSERT(r == (size_t)(((loca[2 * gid] << 8) | loca[2 * gid + 1]) << 1), "short loca: twice the stored value");
  if (fmt > 1) ASSERT(r == (size_t)-2, "unknown loca format: glyph not found");
  if (fmt == 0 && (size_t)gid + 1 >= LEN / 2) ASSERT(r == (size_t)-2, "short loca: glyph id (and its end sentinel) outside the table");
  if (fmt == 1 && (size_t)gid + 1 >= LEN / 4) ASSERT(r == (size_t)-2, "long loca: glyph id (and its end sentinel) outside the table");
  VH_END();
}
// ---- GlyfLookup + GlyfBox: glyf of LEN bytes, any offset (as LocaLookup returns it)
VH_ENTRY vh_glyf() {
  uint8_t *glyf = vh_bytes(LEN);
  size_t off = nondet_u64();
  void *p = TtfUtil::GlyfLookup(glyf, off, LEN);
  if (p) {
    int a, b, c, d;
    ASSERT(p == glyf + off, "pointer to the glyph at that offset");
    (void)TtfUtil::GlyfBox(p, a, b, c, d);          // reads the 10-byte glyph header: must lie inside the table (cbmc bounds check)
  }
  VH_END();
}
// ---- HorMetrics: hmtx of LEN bytes, any hhea (36 bytes), any glyph id
VH_ENTRY vh_hmtx() {
  uint8_t *hmtx = vh_bytes(LEN), *hhea = vh_bytes(36);
  uint16 gid = nondet_u16();
  int lsb = 0; unsigned adv = 0;
  (void)TtfUtil::HorMetrics(gid, hmtx, LEN, hhea, lsb, adv);
  VH_END();
}
