// C14: the LZ4 decoder is exact and bounded (DESIGN 3.14)
#include "common.h"
#include "inc/Decompressor.h"
#ifndef IN
#define IN 13
#endif
#ifndef OUT
#define OUT 16
#endif

// Byte-wise reference LZ4 block decoder (LZ4 block format description), no word copies.
// Also reports the two end-of-block rules an encoder must obey.
struct RefOut { int n; bool endrules; };
// (inner loops live in their own functions so that each gets its own unwinding bound)
static inline bool ref_ext(const uint8_t *in, size_t n_in, size_t &ip, size_t &len) {
  uint8_t b; do { if (ip >= n_in) return false; b = in[ip++]; len += b; } while (b == 255); return true;
}
static inline void ref_copy_lit(const uint8_t *in, size_t &ip, uint8_t *out, size_t &op, size_t ll) { for (size_t i = 0; i < ll; ++i) out[op++] = in[ip++]; }
static inline void ref_copy_match(uint8_t *out, size_t &op, size_t dist, size_t ml) { for (size_t i = 0; i < ml; ++i) { out[op] = out[op - dist]; ++op; } }
static RefOut ref_lz4(const uint8_t *in, size_t n_in, uint8_t *out, size_t cap) {
  RefOut r = {-1, false};
  size_t ip = 0, op = 0, last_match_start = 0; bool had_match = false;
  for (;;) {
    if (ip >= n_in) return r;
    uint8_t token = in[ip++];
    size_t ll = token >> 4;
    if (ll == 15 && !ref_ext(in, n_in, ip, ll)) return r;
    if (ll > n_in - ip || ll > cap - op) return r;
    ref_copy_lit(in, ip, out, op, ll);
    if (ip == n_in) {               // last sequence: literals only
      r.n = (int)op;
      r.endrules = ll >= 5 && (!had_match || last_match_start + 12 <= op);
      return r;
    }
    if (n_in - ip < 2) return r;
    size_t dist = in[ip] | ((size_t)in[ip + 1] << 8); ip += 2;
    if (dist == 0 || dist > op) return r;
    size_t ml = token & 15;
    if (ml == 15 && !ref_ext(in, n_in, ip, ml)) return r;
    ml += 4;
    if (ml > cap - op) return r;
    had_match = true; last_match_start = op;
    ref_copy_match(out, op, dist, ml);
  }
}

VH_ENTRY vh_lz4() {
  uint8_t *in = vh_bytes(IN);
#ifdef TOK0      /* "shaped" queries: the token bytes (sequence lengths) are given by the query, offsets and all data bytes stay arbitrary - */
  in[0] = TOK0;  /* reaches blocks longer than the all-symbolic bound (word copies near the end of the output need >= 9 literals first) */
#ifdef TOK1
  in[1 + (TOK0 >> 4) + 2] = TOK1;
#endif
#endif
  uint8_t *out = (uint8_t *)malloc(OUT);
  uint8_t *refout = (uint8_t *)malloc(OUT);
  ASSUME(out != 0 && refout != 0);
  RefOut ref = ref_lz4(in, IN, refout, OUT);
  int n = lz4::decompress(in, IN, out, OUT);
  ASSERT(n >= -1 && n <= (int)OUT, "returns -1 or a length within the announced output size");
  if (n >= 0) {
    // soundness: whatever the real decoder accepts, the reference decoder decodes to the same bytes
    ASSERT(ref.n == n, "accepted block: the reference decoder yields the same length");
    if (ref.n == n) for (int i = 0; i < n; ++i) ASSERT(out[i] == refout[i], "accepted block: bytes equal the reference decoder's");
  }
  // completeness ('transparent'): a block that is valid by the LZ4 end-of-block rules, fills the announced size exactly
  // and is shorter than its plaintext must be accepted
  // (blocks shorter than the decoder's MINSRCSIZE of 13 bytes are rejected by design of read_sequence: outside the claim, DESIGN 9.3)
  if (ref.n == (int)OUT && ref.endrules && IN < OUT && IN >= 13)
    ASSERT(n == (int)OUT, "valid shrinking LZ4 block is accepted");
  free(in); free(out); free(refout);
  VH_END();
}
