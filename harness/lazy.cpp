// C08 (2): the lazy glyph cache is idempotent - GlyphCache::glyph(g) returns the same glyph on every call, from any cache state,
// and a glyph whose tables cannot be read keeps falling back to glyph 0.  The loader's table readers are stubbed by a model that
// depends on the glyph id only (immutable tables): read_glyph(g) fails or yields fixed metrics per g.
#define NS 0
#define NSPARE 0
#ifndef NG
#define NG 3
#endif
#include "world.h"

static bool vh_ok[NG]; static float vh_adv[NG];
extern "C" const GlyphFace *vh_stub_read_glyph(const void *self, unsigned short gid, GlyphFace *glyph, int *numsubs)
    asm("_ZNK9graphite210GlyphCache6Loader10read_glyphEtRNS_9GlyphFaceEPi");
const GlyphFace *vh_stub_read_glyph(const void *, unsigned short gid, GlyphFace *glyph, int *numsubs) {
  if (gid >= NG || !vh_ok[gid]) return 0;
  glyph->m_advance = Position(vh_adv[gid], 0.f);
#ifdef VH_LAZY_BOXES
  *numsubs += (int)(nondet_u8() & 3);      // this glyph's own sub-box count: 0..3
#else
  *numsubs = 0;
#endif
  return glyph;
}

VH_ENTRY vh_lazy_glyph() {
  World w; vh_make_face(w);
  GlyphCache *gc = w.gc;
  for (unsigned i = 0; i < NG; ++i) { vh_ok[i] = nondet_u8() & 1; vh_adv[i] = nondet_fin(FBOUND); }
  vh_ok[0] = true;                                            // glyph 0 is read when the cache is built
  gc->_glyph_loader = reinterpret_cast<const GlyphCache::Loader *>(vh_new<uint64_t>());     // lazy mode: a loader is present (opaque to the stub)
  // arbitrary cache state consistent with the tables: any subset of the readable glyphs already loaded
  for (unsigned i = 0; i < NG; ++i) {
    bool loaded = (i == 0) || ((nondet_u8() & 1) && vh_ok[i]);
    if (loaded) const_cast<GlyphFace *>(w.glyphs[i])->m_advance = Position(vh_adv[i], 0.f);
    else w.glyphs[i] = 0;
  }
  uint16_t g = nondet_u16(), other = nondet_u16();
  ASSUME(other < NG && other != g);
  const GlyphFace *before_other = w.glyphs[other];
  const GlyphFace *a = gc->glyph(g);
  const GlyphFace *b = gc->glyph(g);
  ASSERT(a != 0 && b != 0, "glyph() always returns a glyph");
  ASSERT(a->theAdvance().x == b->theAdvance().x && a->theAdvance().y == b->theAdvance().y, "repeating the lookup yields the same metrics");
  if (g < NG && vh_ok[g]) ASSERT(a->theAdvance().x == vh_adv[g] && a == b, "a readable glyph is read once and cached");
  else ASSERT(a == w.glyphs[0] && b == w.glyphs[0], "an unreadable or out-of-range glyph falls back to glyph 0, every time");
  ASSERT(w.glyphs[other] == before_other, "the lookup changes no other cache entry");
  VH_END();
}

#ifdef VH_LAZY_BOXES
// ---- C10 (eager vs lazy glyph loading, box clause): on a face with glyph boxes, a glyph loaded on demand gets its GlyphBox (slant bounds)
// whether or not THAT glyph has sub-boxes - as the preloading path gives every glyph one.  read_box is stubbed (returns the box it was handed).
extern "C" GlyphBox *vh_stub_read_box(const void *self, uint16 gid, GlyphBox *curr, const GlyphFace *face) asm("_ZNK9graphite210GlyphCache6Loader8read_boxEtPNS_8GlyphBoxERKNS_9GlyphFaceE");
static int vh_subs[NG];
GlyphBox *vh_stub_read_box(const void *, uint16, GlyphBox *curr, const GlyphFace *) { return curr; }
VH_ENTRY vh_lazy_boxes() {
  World w; vh_make_face(w);
  GlyphCache *gc = w.gc;
  for (unsigned i = 0; i < NG; ++i) { vh_ok[i] = true; vh_adv[i] = 1.f; }
  gc->_glyph_loader = reinterpret_cast<const GlyphCache::Loader *>(vh_new<uint64_t>());
  GlyphBox **boxes = vh_new<GlyphBox *>(NG); for (unsigned i = 0; i < NG; ++i) boxes[i] = 0;
  gc->_boxes = boxes;
  for (unsigned i = 1; i < NG; ++i) w.glyphs[i] = 0;          // only glyph 0 loaded so far
  uint16_t g = nondet_u16(); ASSUME(g >= 1 && g < NG);
  const GlyphFace *a = gc->glyph(g);
  ASSERT(a != 0 && a == w.glyphs[g], "glyph loaded on demand");
  ASSERT(gc->_boxes[g] != 0, "a face with glyph boxes gives every glyph it loads a box (slant bounds), sub-boxes or not");
  VH_END();
}
#endif
