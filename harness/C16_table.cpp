// C16: borrow discipline of Face::Table (every table the face reads goes through it); C14: the compressed-table wrapper
#include <utility>
#ifndef LEN
#define LEN 24
#endif
#define VH_KEEP_COPY 1
static unsigned char vh_copy[LEN];
#include "loader.h"
#include "inc/Decompressor.h"
#ifndef TAGV
#define TAGV 0x53696c66      /* 'Silf' */
#endif
#ifndef HDRW
#define HDRW 0               /* second header word: top 5 bits = compression scheme (0 none, 1 LZ4), low 27 bits = announced size */
#endif
#define OUTSZ (HDRW & 0x07ffffff)

VH_ENTRY vh_table() {
  Provider *p = &g_prov;
  p->outstanding = p->handed_out = p->released = 0; p->sealed = false; p->last = 0; p->len = LEN; p->only_tag = 0; p->hdr_word = HDRW;
  Face *f = vh_raw_face(p, true);
  {
    uint32_t version = nondet_u32();
    Face::Table t(*f, TtfUtil::Tag(TAGV), version);
    ASSERT(p->handed_out == 1, "one get_table call per Table");
    const byte *data = t;
    if (data) {
      ASSERT(t.size() >= 4, "a table that is present passed CheckTable");
      if (t._compressed) {
        ASSERT(p->outstanding == 0, "decompressed: the provider's buffer was released, the table owns a private copy");
        ASSERT(t.size() == OUTSZ, "decompressed size equals the announced size");
#if OUTSZ > 0 && OUTSZ < 64 && LEN > 8
        { // C14 (transparent): what the table now holds is exactly what the block decodes to - the whole announced size, not a prefix
          uint8_t *again = (uint8_t *)malloc(OUTSZ); ASSUME(again != 0);
          int n = lz4::decompress(vh_copy + 8, LEN - 8, again, OUTSZ);
          ASSERT(n == (int)OUTSZ, "an accepted compressed table decodes to exactly the announced number of bytes");
          if (n == (int)OUTSZ) for (unsigned i = 0; i < OUTSZ; ++i) ASSERT(data[i] == again[i], "and holds those bytes");
          free(again);
        }
#endif
        uint8_t sink = data[t.size() - 1]; (void)sink;      // owned copy is readable over its whole length
      } else {
        ASSERT(p->outstanding == 1 && data == p->last && t.size() == LEN, "uncompressed: the table borrows the provider's buffer");
        uint8_t sink = data[t.size() - 1]; (void)sink;
      }
    } else {
      ASSERT(p->outstanding == 0 && t.size() == 0, "absent/failed table: everything obtained has been released");
    }
    // move construction / assignment keep single ownership
    Face::Table u(std::move(t));
    ASSERT((const byte *)t == 0, "moved-from table is empty");
    Face::Table v;
    v = std::move(u);
    ASSERT((const byte *)u == 0 && (const byte *)v == data, "move assignment transfers the buffer");
  }
  ASSERT(p->outstanding == 0 && p->released == (p->handed_out ? p->released : 0), "after destruction every provider buffer has been released");
  ASSERT(p->released <= p->handed_out, "never released more than obtained");
  free(f);
  VH_END();
}
