// C11: UTF-8/16/32 text is decoded exactly and never read past its end (DESIGN 3.11)
#include "common.h"
#include "utfref.h"
#include "graphite2/Segment.h"
#include "inc/UtfCodec.h"
using namespace graphite2;

#ifndef LEN
#define LEN 3
#endif
#ifndef ENC
#define ENC 8
#endif
#if ENC == 8
typedef uint8_t unit_t;
#define REF ref_utf8
#define GRENC gr_utf8
#elif ENC == 16
typedef uint16_t unit_t;
#define REF ref_utf16
#define GRENC gr_utf16
#else
typedef uint32_t unit_t;
#define REF ref_utf32
#define GRENC gr_utf32
#endif

static unit_t nondet_unit() {
#if ENC == 8
  return nondet_u8();
#elif ENC == 16
  return nondet_u16();
#else
  return nondet_u32();
#endif
}

// reference scan of buf[0..n): stops at the first NUL; counts well-formed characters before the first ill-formed sequence
struct Scan { size_t wf; bool ill; bool surrogate; };
static Scan scan(const unit_t *b, size_t n) {
  Scan s = {0, false, false};
  size_t i = 0;
  while (i < n && b[i] != 0) {
    RefSeq r = REF(b + i, n - i);
    if (r.surrogate) s.surrogate = true;
    if (!r.ok) { s.ill = true; break; }
    i += r.len; ++s.wf;
  }
  return s;
}

// does the buffer end in a truncated multi-unit sequence (a lead unit announcing more units than remain)?
static bool trunc_tail(const unit_t *b, size_t n) {
#if ENC == 8
  for (size_t k = 1; k <= 3 && k <= n; ++k) {
    uint8_t l = b[n - k];
    size_t need = l >= 0xF0 ? 4 : l >= 0xE0 ? 3 : l >= 0xC0 ? 2 : 1;
    bool conts = true;
    for (size_t j = 1; j < k; ++j) if ((b[n - k + j] & 0xC0) != 0x80) conts = false;
    if (need > k && conts) return true;
  }
  return false;
#elif ENC == 16
  return n >= 1 && b[n - 1] >= 0xD800 && b[n - 1] <= 0xDBFF;
#else
  return false;
#endif
}

// gr_count_unicode_characters with an explicit buffer end, exact-size buffer of LEN units, all contents.
VH_ENTRY vh_count_end() {
  unit_t *b = (unit_t *)malloc(LEN ? LEN * sizeof(unit_t) : 1);
  ASSUME(b != 0);
  for (unsigned i = 0; i < LEN; ++i) b[i] = nondet_unit();
  const void *err = (const void *)b;     // garbage non-null: the function must overwrite it
  size_t n = gr_count_unicode_characters(GRENC, b, b + LEN, &err);
  Scan s = scan(b, LEN);
  ASSUME(!s.surrogate);                  // encoded surrogate code points: unclassified (DESIGN 3.11)
  bool tt = trunc_tail(b, LEN);
  if (!s.ill && !tt) ASSERT(n == s.wf && err == 0, "well-formed text, no truncated tail: exact count and *pError == NULL");
  if (s.ill) ASSERT(err != 0, "ill-formed text before the first NUL: an error is reported");
  if (err != 0) {
    ASSERT((const unit_t *)err >= b && (const unit_t *)err < b + LEN, "*pError points inside the buffer");
    ASSERT(n <= s.wf, "count does not exceed the well-formed characters preceding the first ill-formed sequence");
  }
  free(b);
  VH_END();
}

// same, buffer_end == NULL: the buffer ends exactly at its (only) NUL unit.
VH_ENTRY vh_count_nul() {
  unit_t *b = (unit_t *)malloc((LEN + 1) * sizeof(unit_t));
  ASSUME(b != 0);
  for (unsigned i = 0; i < LEN; ++i) { b[i] = nondet_unit(); ASSUME(b[i] != 0); }
  b[LEN] = 0;
  const void *err = (const void *)b;
  size_t n = gr_count_unicode_characters(GRENC, b, 0, &err);
  Scan s = scan(b, LEN + 1);
  ASSUME(!s.surrogate);
  if (!s.ill) ASSERT(n == s.wf && err == 0, "well-formed NUL-terminated text: exact count and *pError == NULL");
  if (s.ill) ASSERT(err != 0, "ill-formed text before the NUL: an error is reported");
  if (err != 0) {
    ASSERT((const unit_t *)err >= b && (const unit_t *)err <= b + LEN, "*pError points inside the buffer");
    ASSERT(n <= s.wf, "count does not exceed the well-formed characters preceding the first ill-formed sequence");
  }
  free(b);
  VH_END();
}

// One decoding step of the real codec on an exact 4-unit buffer (the codec is memoryless; the iterator adds cp += |sl|).
VH_ENTRY vh_get_step() {
  const unsigned N = (ENC == 8) ? 4 : (ENC == 16 ? 2 : 1);
  unit_t *b = (unit_t *)malloc(N * sizeof(unit_t));
  ASSUME(b != 0);
  for (unsigned i = 0; i < N; ++i) b[i] = nondet_unit();
  RefSeq r = REF(b, N);
  ASSUME(!r.surrogate);
  int8 l = 0;
  uint32_t u = _utf_codec<ENC>::get(b, l);
  if (r.ok) ASSERT(u == r.usv && l == r.len, "well-formed sequence decodes to its scalar value and length");
  else {
    ASSERT(u == 0xFFFD && l < 0 && -l <= (int)N, "ill-formed sequence decodes as U+FFFD with a negative length");
#if ENC == 8
    for (int i = 1; i < -l; ++i) ASSERT((b[i] & 0xC0) == 0x80, "resynchronisation skips only continuation bytes: the next lead/ASCII byte is not swallowed");
#else
    ASSERT(l == -1, "resynchronisation skips one unit");
#endif
  }
  // the iterator wrapper agrees with the codec and advances by |l|
  utf<unit_t>::const_iterator it(b);
  uint32_t v = *it;
  ASSERT(v == u && it.error() == !r.ok, "iterator dereference = codec get; error flag");
  ++it;
  ASSERT((const unit_t *)it == b + (l < 0 ? -l : l), "iterator advances by |length|");
  free(b);
  VH_END();
}

// put o get = identity for every scalar value; put agrees with the reference encoder.
VH_ENTRY vh_put_get() {
  uint32_t usv = nondet_u32();
  ASSUME(usv < 0x110000u && !(usv >= 0xD800u && usv <= 0xDFFFu));
  const unsigned N = (ENC == 8) ? 4 : (ENC == 16 ? 2 : 1);
  unit_t *b = (unit_t *)malloc(N * sizeof(unit_t));
  ASSUME(b != 0);
  for (unsigned i = 0; i < N; ++i) b[i] = nondet_unit();
  int8 l = 0, l2 = 0;
  _utf_codec<ENC>::put(b, usv, l);
  unit_t refb[4]; int rl;
#if ENC == 8
  rl = enc_utf8(usv, refb);
#elif ENC == 16
  rl = enc_utf16(usv, refb);
#else
  refb[0] = usv; rl = 1;
#endif
  ASSERT(l == rl, "put length = reference encoder length");
  for (int i = 0; i < rl; ++i) ASSERT(b[i] == refb[i], "put bytes = reference encoding");
  uint32_t back = _utf_codec<ENC>::get(b, l2);
  ASSERT(back == usv && l2 == l, "get(put(usv)) == usv");
  free(b);
  VH_END();
}
