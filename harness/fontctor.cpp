// C08 / C15: what a font reports does not depend on anything but its arguments.  Font::Font must leave every entry of the hinted-advance
// cache in the "ask the callback" state; Font::advance then returns exactly what the application's callback says, for every glyph.
#include "world.h"
#include "inc/Font.h"
static float vh_cb_val[NG];
static unsigned vh_cb_calls;
static float vh_adv_cb(const void *, uint16_t gid) { ++vh_cb_calls; return gid < NG ? vh_cb_val[gid] : 0.f; }

VH_ENTRY vh_font_ctor() {
  World w; vh_make_face(w);
  for (unsigned i = 0; i < NG; ++i) { vh_cb_val[i] = nondet_fin(65536.f); ASSUME(!(vh_cb_val[i] == INVALID_ADVANCE)); }
  gr_font_ops ops; ops.size = sizeof ops; ops.glyph_advance_x = vh_adv_cb; ops.glyph_advance_y = 0;
  bool hinted = nondet_bool();
  int handle = 0;
  float ppm = nondet_fin(4096.f);
  Font *f = new Font(ppm, *w.face, hinted ? (const void *)&handle : 0, hinted ? &ops : 0);
  ASSUME(f != 0);
  ASSERT(f->m_advances != 0, "advance cache allocated (one entry per glyph)");
  for (unsigned g = 0; g < NG; ++g) ASSERT(f->m_advances[g] == INVALID_ADVANCE, "every advance cache entry starts in the 'not yet asked' state");
  ASSERT(f->isHinted() == hinted, "hinted exactly when the application passed a handle and an advance callback");
  if (hinted) {
    uint16 gid = nondet_u16(); ASSUME(gid < NG);
    vh_cb_calls = 0;
    float a = f->advance(gid);
    ASSERT(a == vh_cb_val[gid] && vh_cb_calls == 1, "first query: the callback is asked and its value returned");
    float b = f->advance(gid);
    ASSERT(b == a && vh_cb_calls == 1, "second query: served from the cache");
  }
  VH_END();
}
