// C16 / C09 (sealed clause): what a face created with gr_face_preloadAll may still ask its table provider for once gr_make_face has
// returned.  Face::readGlyphs preloads the name table (Face::nameTable()) when glyphs are preloaded; gr_fref_label,
// gr_fref_value_label and gr_face_lang_by_locale... (Face::languageForLocale) go through the same accessor later on.  The lemma: after
// the preloading call, further calls of the accessor never reach get_table - whatever the provider served (a valid table, arbitrary
// bytes that fail the checks, or no table at all).
#ifndef LEN
#define LEN 19
#endif
#include "loader.h"
#include "inc/NameTable.h"
// Stub (listed in the evidence): see nametable.cpp
extern "C" void vh_stub_locale2lang(Locale2Lang *self) asm("_ZN9graphite211Locale2LangC2Ev");
void vh_stub_locale2lang(Locale2Lang *self) {
  for (unsigned i = 0; i < 26; ++i) for (unsigned j = 0; j < 26; ++j) self->mLangLookup[i][j] = 0;
  self->mSeedPosition = 128;
}
VH_ENTRY vh_name_sealed() {
  Provider *p = &g_prov;
  p->outstanding = p->handed_out = p->released = 0; p->sealed = false; p->last = 0; p->len = LEN; p->hdr_word = -1;
#ifdef NOTABLE
  p->only_tag = 0x636d6170;                    // the font has no 'name' table (the provider knows 'cmap' only)
#else
  p->only_tag = 0;
#endif
  Face *f = vh_raw_face(p, true);
  NameTable *n1 = f->nameTable();              // Face::readGlyphs, faceOptions & gr_face_preloadGlyphs
  ASSERT(p->outstanding == 0, "the name table buffer is released once the NameTable has copied it");
  p->sealed = true;                            // gr_make_face returns
  NameTable *n2 = f->nameTable();              // gr_fref_label / gr_fref_value_label / languageForLocale
  ASSERT(n1 == n2, "the accessor keeps returning what the preload found");
  char loc[3]; loc[0] = (char)nondet_u8(); loc[1] = (char)nondet_u8(); loc[2] = 0;
  (void)f->languageForLocale(loc);
  ASSERT(p->outstanding == 0, "nothing borrowed");
  VH_END();
}
