// C17 (c), metamorphic lemma for ShiftCollider::mergeSlot: a neighbour glyph described by ONE sub-octabox equal to its bounding octabox must
// be treated exactly like the same glyph described by its bounding octabox alone (mergeSlot has two copies of the "exclude or only weight the
// margin" decision, one per description).  The Zones updates are replaced by recording stubs; the two runs must issue the same updates - same
// kind (hard exclusion vs margin weight), same axis, same interval, same cost - and report the same collision flag.  Exact-dyadic lowering (grid 1/16): the two
// copies associate their sums differently, so under IEEE rounding they may legitimately differ in the last bit; on the grid (inputs multiples of
// 1/2, |v| <= 32, margin 0 so that margin/ISQRT2 is exact) both are exact and must agree.
#define NS 2
#define NSPARE 0
#define NG 3
#define FBOUND 32.0f
#include "world.h"
#include "inc/Collider.h"
struct Call { int kind, axis; float a, b, c; };
enum { MAXC = 12 };
static Call vh_log[MAXC]; static unsigned vh_n;
extern "C" void vh_stub_excl(Zones *self, float xmin, float xmax, int axis) asm("_ZN9graphite25Zones20exclude_with_marginsEffi");
void vh_stub_excl(Zones *, float xmin, float xmax, int axis) { if (vh_n < MAXC) { vh_log[vh_n].kind = 1; vh_log[vh_n].axis = axis; vh_log[vh_n].a = xmin; vh_log[vh_n].b = xmax; vh_log[vh_n].c = 0; } ++vh_n; }
extern "C" void vh_stub_waxis(Zones *self, int axis, float xmin, float xmax, float f, float a0, float mi, float xi, float ai, float c, bool nega) asm("_ZN9graphite25Zones12weightedAxisEiffffffffb");
void vh_stub_waxis(Zones *, int axis, float xmin, float xmax, float, float, float, float, float, float c, bool) { if (vh_n < MAXC) { vh_log[vh_n].kind = 2; vh_log[vh_n].axis = axis; vh_log[vh_n].a = xmin; vh_log[vh_n].b = xmax; vh_log[vh_n].c = c; } ++vh_n; }
struct GB1 { uint8 _num; unsigned short _bitmap; Rect _slant; Rect _subs[2]; };
#define FB 32.f
#define GPOS() nondet_gpos(FB, 2)
VH_ENTRY vh_mergeslot_sub() {
  World w; vh_make_face(w); vh_make_segment(w);
  // glyph 0: target; glyphs 1 and 2: the same neighbour outline, 1 without sub-boxes, 2 with one sub-box equal to its bounding boxes
  GlyphFace *g1 = const_cast<GlyphFace *>(w.glyphs[1]), *g2 = const_cast<GlyphFace *>(w.glyphs[2]);
  const_cast<GlyphFace *>(w.glyphs[0])->m_bbox = Rect(GPOS(), GPOS()); g1->m_bbox = Rect(GPOS(), GPOS());
  g2->m_bbox = g1->m_bbox;
  GlyphBox **boxes = vh_new<GlyphBox *>(NG);
  for (unsigned g = 0; g < 2; ++g) { GlyphBox *gb = vh_new<GlyphBox>(); gb->_num = 0; gb->_bitmap = 0; gb->_slant = Rect(GPOS(), GPOS()); boxes[g] = gb; }
  GB1 *gb2 = vh_new<GB1>(); gb2->_num = 1; gb2->_bitmap = 0; gb2->_slant = boxes[1]->_slant; gb2->_subs[0] = g1->m_bbox; gb2->_subs[1] = boxes[1]->_slant;
  boxes[2] = reinterpret_cast<GlyphBox *>(gb2);
  w.gc->_boxes = boxes;
  Slot *target = w.sl[0], *nb = w.sl[1];
  target->m_glyphid = 0; target->m_position = GPOS(); nb->m_position = GPOS();
  SlotCollision *cs = vh_new<SlotCollision>(); memset((void *)cs, 0, sizeof(SlotCollision));       // neighbour's collision record: no sequence classes, no exclusion glyph
  ShiftCollider *sc = vh_new<ShiftCollider>(); memset((void *)sc, 0, sizeof(ShiftCollider));
  sc->_target = target; sc->_limit = Rect(GPOS(), GPOS()); sc->_currShift = GPOS(); sc->_currOffset = GPOS(); sc->_origin = GPOS();
  sc->_margin = 0.f; sc->_marginWt = nondet_grid(8.f, 2);
  Position shift = GPOS();
  bool after = nondet_bool();
  bool col1 = false, col2 = false;
  nb->m_glyphid = 1; vh_n = 0;
  bool r1 = sc->mergeSlot(w.seg, nb, cs, shift, after, false, col1, false, 0);
  Call first[MAXC]; unsigned n1 = vh_n; for (unsigned i = 0; i < MAXC; ++i) first[i] = vh_log[i];
  nb->m_glyphid = 2; vh_n = 0;
  bool r2 = sc->mergeSlot(w.seg, nb, cs, shift, after, false, col2, false, 0);
  ASSERT(r1 == r2 && col1 == col2, "same result and same collision flag for both descriptions of the neighbour");
  ASSERT(n1 == vh_n && n1 <= 4, "same number of interval updates (at most one per axis)");
  for (unsigned i = 0; i < 4; ++i) if (i < n1 && i < vh_n)
  {
    ASSERT(first[i].kind == vh_log[i].kind && first[i].axis == vh_log[i].axis && first[i].a == vh_log[i].a && first[i].b == vh_log[i].b, "same update: hard exclusion vs margin weight, axis, interval");
#ifdef CMP_COST   /* thorough tier: also the margin cost (two multiplier chains: 240 s with cadical) */
    ASSERT(first[i].c == vh_log[i].c, "same margin cost");
#endif
  }
  VH_END();
}
