// C18 (font defaults, range rule from the Feat table), C01 (Feat parser on arbitrary bytes), C16 (readFeats temporaries)
#ifndef NF
#define NF 1            /* features announced by the header (pinned: sizes the FeatureRef array) */
#endif
#ifndef NSET
#define NSET 1          /* settings of feature 0 (pinned: sizes its setting array) */
#endif
#ifndef VER
#define VER 2           /* table version 1 (12-byte records) or 2 (16-byte records) */
#endif
#define RECSZ (VER >= 2 ? 16 : 12)
#ifndef LEN
#define LEN (12 + NF * RECSZ + NSET * 4)
#endif
#define NSOFF (12 + (VER >= 2 ? 4 : 2))
// pinned bytes: version word, feature count, setting count of the first record; everything else is arbitrary
#define VH_PIN_BYTES(b) do { b[0] = 0; b[1] = VER; b[2] = 0; b[3] = 0; b[4] = 0; b[5] = NF; if (NSOFF + 1 < LEN) { b[NSOFF] = 0; b[NSOFF + 1] = NSET; } } while (0)
#include "loader.h"
#include "inc/FeatureMap.h"
#include "inc/FeatureVal.h"
#include "graphite2/Font.h"
static inline uint16_t rd16(const uint8_t *p) { return (uint16_t)((p[0] << 8) | p[1]); }
static inline uint32_t rd32(const uint8_t *p) { return ((uint32_t)p[0] << 24) | ((uint32_t)p[1] << 16) | ((uint32_t)p[2] << 8) | p[3]; }

VH_ENTRY vh_readfeats() {
  Provider *p = &g_prov;
  p->outstanding = p->handed_out = p->released = 0; p->sealed = false; p->last = 0; p->len = LEN; p->only_tag = 0; p->hdr_word = -1;
  Face *f = vh_raw_face(p, true);
  FeatureMap &map = f->m_Sill.m_FeatureMap;
  // keep a private copy of what the provider served (the library releases the buffer)
  bool ok = map.readFeats(*f);
  ASSERT(p->outstanding == 0 && p->handed_out == 1 && p->released == 1, "readFeats borrows the Feat table once and has released it when it returns");
  if (ok && map.m_numFeats) {
    ASSERT(map.m_numFeats == NF && map.m_feats != 0 && map.m_pNamedFeats != 0, "accepted: one FeatureRef per announced feature");
    for (unsigned i = 0; i < NF; ++i) {
      const FeatureRef &r = map.m_feats[i];
      ASSERT(r.m_bits + (r.m_mask ? 1 : 0) <= 32 && r.m_index < 255, "bit field inside one word of the feature vector");
      if (r.m_numSet) {
        uint16_t mx = 0;
        for (unsigned j = 0; j < r.m_numSet && j < NSET + 1; ++j) { uint16_t v = (uint16_t)r.m_nameValues[j].value(); if (v > mx) mx = v; }
        ASSERT(r.m_max == mx, "largest settable value = largest defined setting (as an unsigned 16-bit value)");
        ASSERT(r.getFeatureVal(map.m_defaultFeatures) == (uint16_t)r.m_nameValues[0].value(), "font default = first setting");
        const gr_feature_ref *gr = static_cast<const gr_feature_ref *>(&r);
        gr_feature_val *fv = gr_featureval_clone(static_cast<const gr_feature_val *>(&map.m_defaultFeatures));
        ASSUME(fv != 0);
        uint16_t v = nondet_u16();
        int rc = gr_fref_set_feature_value(gr, v, fv);
        ASSERT((rc != 0) == (v <= mx), "gr_fref_set_feature_value succeeds exactly up to the largest defined setting");
        if (rc) ASSERT(gr_fref_feature_value(gr, fv) == v, "get after set");
        gr_featureval_destroy(fv);
      } else {
        ASSERT(r.m_max == 0xffffffffu && r.getFeatureVal(map.m_defaultFeatures) == 0, "no settings: any 16-bit value allowed, default 0");
      }
      for (unsigned j = 0; j < i; ++j) {
        const FeatureRef &o = map.m_feats[j];
        ASSERT(o.m_index != r.m_index || (o.m_mask & r.m_mask) == 0, "features occupy disjoint bits");
      }
    }
    for (unsigned i = 1; i < NF; ++i) ASSERT(map.m_pNamedFeats[i - 1].m_name <= map.m_pNamedFeats[i].m_name, "feature lookup table sorted by id");
  }
  VH_END();
}

#ifdef VH_FEATSET
// ---- readFeatureSettings (file-local in FeatureMap.cpp; exposed to the harness by the query): the value it returns becomes the
// feature's largest settable value: it is the largest setting value read, as an unsigned 16-bit number, for every table content.
extern uint16 vh_rfs(const byte *, FeatureSetting *, size_t) asm("_ZN12_GLOBAL__N_119readFeatureSettingsEPKhPN9graphite214FeatureSettingEm");
VH_ENTRY vh_feat_settings() {
  uint8_t *b = vh_bytes(NSET * 4);
  FeatureSetting *s = vh_new<FeatureSetting>(NSET);
  uint16 mx = vh_rfs(b, s, NSET);
  uint16 ref = 0;
  for (unsigned j = 0; j < NSET; ++j) {
    uint16_t v = rd16(b + 4 * j);
    if (v > ref) ref = v;
    ASSERT((uint16_t)s[j].value() == v && s[j].label() == rd16(b + 4 * j + 2), "setting j holds the table's value and label");
  }
  ASSERT(mx == ref, "largest settable value = largest defined setting (unsigned 16-bit)");
  VH_END();
}
#endif
