// C01 (bytecode loader is total and memory-safe on arbitrary bytes), C07(b) (accepted arithmetic programs return the spec value),
// C02 (running any accepted program of the bounded length on a small segment is memory-safe)
#ifndef NS
#define NS 2
#endif
#include "invariants.h"
#include "inc/Code.h"
#include "inc/FeatureMap.h"
using namespace graphite2::vm;
#ifndef LEN
#define LEN 4
#endif
#ifndef RLEN
#define RLEN 1            /* rule length (slots the rule spans) */
#endif

// Stub (listed in the evidence): Machine::Code::decoder's constructor, same initial values, but the 256-entry context table is
// cleared with one memset instead of 256 read-modify-write steps on bit-fields (cbmc: > 240 s for that loop alone).  The class is
// private to Code.cpp, so its layout is mirrored here; the static_assert pins the size clang reports for the real class (568 bytes).
struct vh_limits { const byte *bytecode; uint8 pre_context; uint16 rule_length, classes, glyf_attrs, features; byte attrid[gr_slatMax]; };
struct vh_context { uint8 flags; uint8 codeRef; };
struct vh_decoder {
  Machine::Code *_code; int _out_index; uint16 _out_length; instr *_instr; byte *_data; vh_limits *_max; int _passtype; int _stack_depth;
  bool _in_ctxt_item; int16 _slotref; vh_context _contexts[256]; byte _max_ref;
};
static_assert(sizeof(vh_decoder) == 568, "mirror of Machine::Code::decoder");
extern "C" void vh_stub_decoder_ctor(vh_decoder *self, vh_limits *lims, Machine::Code *code, int pt) asm("_ZN9graphite22vm7Machine4Code7decoderC2ERNS3_6limitsERS2_NS_8passtypeE");
void vh_stub_decoder_ctor(vh_decoder *self, vh_limits *lims, Machine::Code *code, int pt) {
  self->_code = code;
  self->_out_index = code->_constraint ? 0 : lims->pre_context;
  self->_out_length = code->_constraint ? 1 : lims->rule_length;
  self->_instr = code->_code; self->_data = code->_data; self->_max = lims; self->_passtype = pt;
  self->_stack_depth = 0; self->_in_ctxt_item = false; self->_slotref = 0; self->_max_ref = 0;
  memset(self->_contexts, 0, sizeof self->_contexts);
}

static void setup_limits(World &w) {
  w.silf->m_nClass = nondet_u16();
  w.face->m_Sill.m_FeatureMap.m_numFeats = nondet_u8() & 3;
}

static bool is_impl(const void *p, unsigned con) {
  const opcode_t *t = Machine::getOpcodeTable();
  for (unsigned i = 0; i <= MAX_OPCODE; ++i) if (t[i].impl[con] == p && p) return true;
  return false;
}

// ---- load only: arbitrary bytes, arbitrary pass type / code kind / pre-context
VH_ENTRY vh_decode() {
  World w; vh_make_face(w); setup_limits(w);
  uint8_t *bc = vh_bytes(LEN);
#ifdef OPC0
  ASSUME(bc[0] == OPC0);
#endif
#ifdef CONSTRAINT      /* code kind enumerated by the query list: it selects the size of the code buffer (must be concrete for the solver) */
  bool constraint = CONSTRAINT;
#else
  bool constraint = nondet_u8() & 1;
#endif
  uint8 pre = nondet_u8(); ASSUME(pre <= RLEN);
  unsigned pt = nondet_u8(); ASSUME(pt <= PASS_TYPE_JUSTIFICATION);
  Machine::Code *code = new Machine::Code(constraint, bc, bc + LEN, pre, RLEN, *w.silf, *w.face, passtype(pt));
  ASSUME(code != 0);
  if (*code) {
    const size_t n = code->_instr_count;
    ASSERT(n >= 1 && n <= LEN + RLEN, "instruction count within the loader's own estimate");
    ASSERT(code->_data_size <= LEN + 1, "parameter bytes never exceed the bytecode length (+1 skip byte)");
    ASSERT(code->_code[n] == Machine::getOpcodeTable()[RET_ZERO].impl[constraint], "sentinel RET_ZERO after the last instruction");
    const void *last = code->_code[n - 1];
    const opcode_t *t = Machine::getOpcodeTable();
    ASSERT(last == t[POP_RET].impl[0] || last == t[RET_ZERO].impl[0] || last == t[RET_TRUE].impl[0], "accepted program ends in a return");
    // (membership of every instruction in the opcode table is not re-checked here: comparing a loaded code pointer against all 67 table
    //  entries makes cbmc's pointer simplifier quadratic - > 400 s for one instruction; running the program, vh_arith_prog, exercises them instead)
    ASSERT(code->_own, "stand-alone code owns its buffer");
  } else {
    ASSERT(code->_code == 0 && code->_data == 0, "rejected program holds no buffer");
  }
  delete code;
  free(bc);
  VH_END();
}

// ---- C07(b): straight-line arithmetic programs through the real loader and the real machine
static bool arith_op(uint8_t o) { return o <= 0x18 || (o >= 0x30 && o <= 0x32) || (o >= 0x3E && o <= 0x41); }
struct RefVM { int32_t st[LEN + 2]; int sp; };
static int ref_psz(uint8_t o) { return o == 1 || o == 2 ? 1 : o == 3 || o == 4 ? 2 : o == 5 ? 4 : o == 0x41 ? 4 : 0; }
// returns 0 = finished with value, 1 = dies (division), 2 = malformed for the reference (should not happen for accepted programs)
static int ref_run(const uint8_t *bc, unsigned len, int32_t &ret) {
  RefVM v; v.sp = 0; unsigned ip = 0;
  for (unsigned step = 0; step < LEN + 1 && ip < len; ++step) {
    uint8_t o = bc[ip++]; const uint8_t *p = bc + ip; ip += ref_psz(o);
    if (ip > len) return 2;
    int32_t a = v.sp >= 1 ? v.st[v.sp - 1] : 0, b = v.sp >= 2 ? v.st[v.sp - 2] : 0, c = v.sp >= 3 ? v.st[v.sp - 3] : 0;
    uint32_t ua = a, ub = b;
    switch (o) {
      case 0x00: break;
      case 0x01: v.st[v.sp++] = (int8_t)p[0]; break;
      case 0x02: v.st[v.sp++] = p[0]; break;
      case 0x03: v.st[v.sp++] = (int16_t)((p[0] << 8) | p[1]); break;
      case 0x04: v.st[v.sp++] = (uint16_t)((p[0] << 8) | p[1]); break;
      case 0x05: v.st[v.sp++] = (int32_t)(((uint32_t)p[0] << 24) | ((uint32_t)p[1] << 16) | ((uint32_t)p[2] << 8) | p[3]); break;
      case 0x30: if (v.sp < 1) return 2; ret = (v.sp == 1) ? a : 0; return 0;      // machine epilogue: exactly one item left, else 0
      case 0x31: ret = (v.sp == 0) ? 0 : 0; if (v.sp == 0) { ret = 0; } return 0;
      case 0x32: ret = (v.sp == 0) ? 1 : 0; return 0;
      default: {
        int ar = (o == 0x0C || o == 0x0D || o == 0x0E || o == 0x12 || o == 0x40 || o == 0x41) ? 1 : (o == 0x0F ? 3 : 2);
        if (v.sp < ar) return 2;
        int32_t r;
        switch (o) {
          case 0x06: r = (int32_t)(ub + ua); break; case 0x07: r = (int32_t)(ub - ua); break; case 0x08: r = (int32_t)(ub * ua); break;
          case 0x09: if (a == 0 || (b == INT32_MIN && a == -1)) return 1; r = b / a; break;
          case 0x0A: r = a < b ? a : b; break; case 0x0B: r = a > b ? a : b; break;
          case 0x0C: r = (int32_t)(0u - ua); break; case 0x0D: r = ua & 0xFF; break; case 0x0E: r = ua & 0xFFFF; break;
          case 0x0F: r = c ? b : a; break;
          case 0x10: r = (b && a); break; case 0x11: r = (b || a); break; case 0x12: r = !a; break;
          case 0x13: r = b == a; break; case 0x14: r = b != a; break; case 0x15: r = b < a; break; case 0x16: r = b > a; break;
          case 0x17: r = b <= a; break; case 0x18: r = b >= a; break;
          case 0x3E: r = (int32_t)(ub | ua); break; case 0x3F: r = (int32_t)(ub & ua); break; case 0x40: r = (int32_t)~ua; break;
          case 0x41: { uint32_t m = (p[0] << 8) | p[1], x = (p[2] << 8) | p[3]; r = (int32_t)((ua & ~m) | x); break; }
          default: return 2;
        }
        v.sp -= ar; v.st[v.sp++] = r;
      }
    }
  }
  return 2;
}

VH_ENTRY vh_arith_prog() {
  World w; vh_make_face(w); vh_make_segment(w); setup_limits(w);
  uint8_t *bc = vh_bytes(LEN);
  // straight-line programs over the arithmetic / push / return opcodes (the property's quantifier)
  {
    unsigned ip = 0;
    for (unsigned k = 0; k < LEN && ip < LEN; ++k) { ASSUME(arith_op(bc[ip])); ip += 1 + ref_psz(bc[ip]); }
  }
  bool constraint = nondet_u8() & 1;
  Machine::Code *code = new Machine::Code(constraint, bc, bc + LEN, 0, 1, *w.silf, *w.face, PASS_TYPE_SUBSTITUTE);
  ASSUME(code != 0);
  if (*code && code->_code[code->_instr_count - 1] == code->_code[code->_instr_count - 1]) {
    SlotMap smap(*w.seg, 0, 8);
    smap.reset(*w.sl[0], 0); smap.pushSlot(w.sl[0]); smap.pushSlot(NS > 1 ? w.sl[1] : 0);
    Machine m(smap);
    slotref *map = &smap[0];
    int32_t got = code->run(m, map);
    int32_t want = 0; int rr = ref_run(bc, LEN, want);
    ASSERT(rr != 2, "every accepted straight-line arithmetic program is well formed for the reference evaluator (operands present, ends in a return)");
    if (rr == 0) {
      if (m.status() == Machine::finished) ASSERT(got == want, "returned value equals the value under the opcode specification");
      else ASSERT(m.status() == Machine::stack_not_empty || m.status() == Machine::stack_underflow, "only stack-shape statuses besides finished");
    }
    if (rr == 1) ASSERT(m.status() == Machine::died_early, "division by zero / INT_MIN/-1 fails safely");
  }
  delete code; free(bc);
  VH_END();
}

#ifdef VH_VALID_UPTO
// ---- C02 / C01: the loader's shared operand test.  Every run-time lemma that takes a class number, an attribute code, a user-attribute or
// feature index "as the loader lets it through" (classmap_*, slot_attr_*, ...) rests on this: an operand is accepted exactly when it is BELOW
// the count it indexes (and the count is not 0); otherwise the code is marked out_of_range_data and will not be run.
extern "C" bool vh_valid_upto(const vh_decoder *self, uint16 limit, uint16 x) asm("_ZNK9graphite22vm7Machine4Code7decoder10valid_uptoEtt");
VH_ENTRY vh_valid_upto_lemma() {
  Machine::Code *code = vh_new<Machine::Code>(); memset((void *)code, 0, sizeof(Machine::Code));
  vh_decoder *d = vh_new<vh_decoder>(); memset((void *)d, 0, sizeof(vh_decoder)); d->_code = code;
  uint16 limit = nondet_u16(), x = nondet_u16();
  bool r = vh_valid_upto(d, limit, x);
  ASSERT(r == (limit != 0 && x < limit), "accepted exactly when the operand is below the count");
  ASSERT(r ? code->_status == Machine::Code::loaded : code->_status == Machine::Code::out_of_range_data, "a refused operand marks the code as not runnable");
  VH_END();
}
#endif
